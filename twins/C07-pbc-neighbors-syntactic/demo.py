"""Demo for the purely syntactic refactoring of utils/pbc.py:remove_pbc and of the
pair-geometry lines of neighbors/calculate_neighbors.py (Nnearests, cutoffneighbors,
cutoffneighbors_particletype).

Every check compares the public function against a straightforward loop reference
written here.  Exit code 0 on success.
"""

import logging
import os
import shutil
import sys
import tempfile

import numpy as np

from PyMatterSim.neighbors.calculate_neighbors import (
    Nnearests, cutoffneighbors, cutoffneighbors_particletype)
from PyMatterSim.reader.reader_utils import SingleSnapshot, Snapshots
from PyMatterSim.utils.pbc import remove_pbc


logging.disable(logging.CRITICAL)


def ref_min_image(vec, hmatrix, ppp):
    """component-by-component minimum image of ONE vector (rows of hmatrix = cell vectors)"""
    ndim = len(vec)
    frac = np.linalg.solve(hmatrix.T, vec)  # vec = sum_k frac[k] * hmatrix[k]
    out = np.zeros(ndim)
    for k in range(ndim):
        f = frac[k]
        if ppp[k]:
            f = f - np.rint(f)
        out += f * hmatrix[k]
    return out


def make_snapshot(rng, nparticle, hmatrix, ntypes=1, spread=3.0):
    """random (unwrapped, images spread over several cells) configuration"""
    ndim = hmatrix.shape[0]
    frac = rng.uniform(-spread, spread, size=(nparticle, ndim))
    positions = frac @ hmatrix
    particle_type = (np.arange(nparticle) % ntypes + 1).astype(int)
    rng.shuffle(particle_type)
    boxlength = np.diag(hmatrix).copy()
    boxbounds = np.c_[np.zeros(ndim), boxlength]
    return SingleSnapshot(
        timestep=0,
        nparticle=nparticle,
        particle_type=particle_type,
        positions=positions,
        boxlength=boxlength,
        boxbounds=boxbounds,
        realbounds=boxbounds,
        hmatrix=hmatrix,
    )


def ref_distance_table(snapshot, ppp):
    n = snapshot.nparticle
    table = np.zeros((n, n))
    for i in range(n):
        for j in range(n):
            table[i, j] = np.linalg.norm(
                ref_min_image(snapshot.positions[j] - snapshot.positions[i], snapshot.hmatrix, ppp))
    return table


def read_blocks(fname, nparticle):
    """parse 'id cn neighbours...' blocks"""
    with open(fname, "r", encoding="utf-8") as f:
        lines = f.readlines()
    blocks = []
    pos = 0
    while pos < len(lines):
        if not lines[pos].strip():
            pos += 1
            continue
        assert lines[pos].split() == ["id", "cn", "neighborlist"], lines[pos]
        block = []
        for line in lines[pos + 1: pos + 1 + nparticle]:
            block.append([int(x) for x in line.split()])
        blocks.append(block)
        pos += 1 + nparticle
    return blocks


HMATS = {
    "3d-ortho": np.diag([5.0, 6.0, 7.0]),
    "3d-triclinic-negative-tilt": np.array([[5.0, 0.0, 0.0], [-1.3, 6.0, 0.0], [0.8, -1.1, 7.0]]),
    "2d-ortho": np.diag([8.0, 6.5]),
    "2d-triclinic-negative-tilt": np.array([[8.0, 0.0], [-2.0, 6.5]]),
}


def check_remove_pbc(rng):
    for name, hmatrix in HMATS.items():
        ndim = hmatrix.shape[0]
        ppps = [np.ones(ndim, dtype=int), np.zeros(ndim, dtype=int)]
        mixed = np.ones(ndim, dtype=int)
        mixed[-1] = 0
        ppps.append(mixed)
        for ppp in ppps:
            RIJ = rng.uniform(-3.3, 3.3, size=(40, ndim)) @ hmatrix
            got = remove_pbc(RIJ, hmatrix, ppp)
            assert got.shape == RIJ.shape
            for row_in, row_out in zip(RIJ, got):
                want = ref_min_image(row_in, hmatrix, ppp)
                assert np.allclose(row_out, want, rtol=1e-12, atol=1e-12), (name, ppp)
            # list input for ppp and empty selection
            got2 = remove_pbc(RIJ, hmatrix, list(ppp))
            assert np.array_equal(got, got2)
            assert remove_pbc(RIJ[:0], hmatrix, ppp).shape == (0, ndim)
    # default ppp, orthogonal box: plain per-component formula
    hmatrix = HMATS["3d-ortho"]
    RIJ = rng.uniform(-20, 20, size=(25, 3))
    lengths = np.diag(hmatrix)
    assert np.allclose(remove_pbc(RIJ, hmatrix), RIJ - lengths * np.rint(RIJ / lengths), rtol=1e-12, atol=1e-12)


def check_neighbors(rng, tmpdir):
    for name, hmatrix in HMATS.items():
        ndim = hmatrix.shape[0]
        ppp = np.ones(ndim, dtype=int)
        nparticle = 14
        snaps = [make_snapshot(rng, nparticle, hmatrix, ntypes=2) for _ in range(2)]
        # all frames share the type assignment of frame 0 (as in a real trajectory)
        snaps[1] = SingleSnapshot(**{**snaps[1].__dict__, "particle_type": snaps[0].particle_type})
        snapshots = Snapshots(nsnapshots=2, snapshots=snaps)
        tables = [ref_distance_table(s, ppp) for s in snaps]

        # ---- N nearest, incl. the extreme N = nparticle - 1 ("N+1 particles")
        for N in (4, nparticle - 1):
            fn = os.path.join(tmpdir, f"nn_{name}_{N}.dat")
            Nnearests(snapshots, N=N, ppp=ppp, fnfile=fn)
            blocks = read_blocks(fn, nparticle)
            assert len(blocks) == 2
            for table, block in zip(tables, blocks):
                for i, row in enumerate(block):
                    order = [j for j in np.argsort(table[i]) if j != i][:N]
                    assert row[0] == i + 1 and row[1] == N, (name, row)
                    assert row[2:] == [j + 1 for j in order], (name, N, i)

        # ---- global cutoff (one cutoff small enough to give empty neighbour lists)
        for r_cut in (0.4, 2.1):
            fn = os.path.join(tmpdir, f"cut_{name}_{r_cut}.dat")
            cutoffneighbors(snapshots, r_cut=r_cut, ppp=ppp, fnfile=fn)
            blocks = read_blocks(fn, nparticle)
            for table, block in zip(tables, blocks):
                for i, row in enumerate(block):
                    order = [j for j in np.argsort(table[i]) if j != i and table[i, j] <= r_cut]
                    assert row[0] == i + 1 and row[1] == len(order), (name, row)
                    assert row[2:] == [j + 1 for j in order], (name, r_cut, i)

        # ---- type-pair cutoffs
        r_pair = np.array([[1.6, 2.4], [2.4, 3.0]])
        fn = os.path.join(tmpdir, f"cutt_{name}.dat")
        cutoffneighbors_particletype(snapshots, r_cut=r_pair, ppp=ppp, fnfile=fn)
        blocks = read_blocks(fn, nparticle)
        types = snaps[0].particle_type
        for table, block in zip(tables, blocks):
            for i, row in enumerate(block):
                order = [j for j in np.argsort(table[i])
                         if j != i and table[i, j] <= r_pair[types[i] - 1, types[j] - 1]]
                assert row[0] == i + 1 and row[1] == len(order), (name, row)
                assert row[2:] == [j + 1 for j in order], (name, i)


def main():
    rng = np.random.default_rng(20260929)
    tmpdir = tempfile.mkdtemp()
    try:
        check_remove_pbc(rng)
        check_neighbors(rng, tmpdir)
    finally:
        shutil.rmtree(tmpdir, ignore_errors=True)
    print("OK")
    return 0


if __name__ == "__main__":
    sys.exit(main())
