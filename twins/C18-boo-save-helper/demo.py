"""Demo for the helper extraction in PyMatterSim.static.boo (saving of ql/Ql, w/W and
w_cap/W_cap by boo_3d.ql_Ql and boo_3d.w_W_cap).

Inputs (all synthetic):
  * a perfect fcc crystal (12 neighbours): q4, q6, w4_cap, w6_cap must take the
    textbook values 0.19094, 0.57452, -0.159317, -0.013161;
  * a random configuration in a triclinic cell (negative tilt) with unequal
    coordination numbers (zero padded neighbour table), two snapshots: ql / Ql are
    compared with an independent formula based on the addition theorem,
        ql_i^2 = 1/N_i^2 sum_{j,k} P_l(r_ij . r_ik),
    and w_cap with  w * (sum_m |qlm|^2)^(-3/2).
For every way of asking for output (none, *.npy, *.dat, *.txt) the files must hold the
returned values: the npy file exactly, the text file to the 6 written decimals, and no
other file may appear.  Inputs must stay bit-for-bit unchanged and repeated calls must
agree.  Exits 0 on success.
"""
import os
import shutil
import sys
import tempfile

import numpy as np
from scipy.special import eval_legendre

from PyMatterSim.reader.reader_utils import SingleSnapshot, Snapshots
from PyMatterSim.static.boo import boo_3d


def make_snapshots(list_positions, hmatrix, origin=0.0):
    boxlength = np.diag(hmatrix).copy()
    snaps = []
    for t, pos in enumerate(list_positions):
        bounds = np.column_stack((np.zeros(3) + origin, boxlength + origin))
        snaps.append(SingleSnapshot(
            timestep=100 * t,
            nparticle=pos.shape[0],
            particle_type=np.ones(pos.shape[0], dtype=np.int32),
            positions=pos,
            boxlength=boxlength,
            boxbounds=bounds,
            realbounds=bounds.copy(),
            hmatrix=hmatrix,
        ))
    return Snapshots(nsnapshots=len(snaps), snapshots=snaps)


def minimum_image(rij, hmatrix):
    frac = rij @ np.linalg.inv(hmatrix)
    frac -= np.rint(frac)
    return frac @ hmatrix


def neighbour_lists(pos, hmatrix, counts=None, cutoff=None):
    """list of neighbour index arrays: the counts[i] nearest ones, or all within cutoff"""
    out = []
    for i in range(pos.shape[0]):
        dist = np.linalg.norm(minimum_image(pos - pos[i], hmatrix), axis=1)
        dist[i] = np.inf
        order = np.argsort(dist)
        if cutoff is not None:
            out.append(order[dist[order] < cutoff])
        else:
            out.append(order[:counts[i]])
    return out


def write_neighbours(path, list_of_lists):
    with open(path, "w", encoding="utf-8") as f:
        for neighbours in list_of_lists:
            f.write("id   cn   neighborlist\n")
            for i, nb in enumerate(neighbours):
                f.write("%d %d " % (i + 1, len(nb)) + " ".join(str(j + 1) for j in nb) + "\n")


def snapshot_bytes(snapshots):
    return [(s.positions.tobytes(), s.particle_type.tobytes(), s.boxlength.tobytes(),
             s.boxbounds.tobytes(), s.hmatrix.tobytes()) for s in snapshots.snapshots]


def reference_ql(l, snapshots, all_neighbours):
    """(ql, Ql, sum_m |qlm|^2, sum_m |Qlm|^2) from Legendre polynomials of bond angles"""
    nsnap = snapshots.nsnapshots
    npart = snapshots.snapshots[0].nparticle
    ql = np.zeros((nsnap, npart))
    Ql = np.zeros((nsnap, npart))
    for n, snap in enumerate(snapshots.snapshots):
        neighbours = all_neighbours[n]
        units = []
        for i in range(npart):
            rij = minimum_image(snap.positions[neighbours[i]] - snap.positions[i], snap.hmatrix)
            units.append(rij / np.linalg.norm(rij, axis=1)[:, None])
        for i in range(npart):
            # local: average over the bonds of i
            cosines = np.clip(units[i] @ units[i].T, -1.0, 1.0)
            ql[n, i] = np.sqrt(eval_legendre(l, cosines).sum()) / len(neighbours[i])
            # coarse grained: Qlm(i) = [qlm(i) + sum_j qlm(j)] / (1 + N_i); qlm(k) is the mean over bonds of k
            group = [i] + list(neighbours[i])
            total = 0.0
            for a in group:
                for b in group:
                    cosines = np.clip(units[a] @ units[b].T, -1.0, 1.0)
                    total += eval_legendre(l, cosines).sum() / (len(neighbours[a]) * len(neighbours[b]))
            Ql[n, i] = np.sqrt(total) / len(group)
    factor = (2 * l + 1) / (4 * np.pi)
    return ql, Ql, factor * ql ** 2, factor * Ql ** 2


def check_files(tmpdir, expected_files):
    present = sorted(os.listdir(tmpdir))
    assert present == sorted(expected_files), (present, sorted(expected_files))


def run_output_modes(boo, tmpdir, coarse_graining, label):
    """exercise every output mode of ql_Ql and w_W_cap; return (ql, w, wcap)"""
    keep = set(os.listdir(tmpdir))
    ql = boo.ql_Ql(coarse_graining=coarse_graining)
    w, wcap = boo.w_W_cap(coarse_graining=coarse_graining)
    assert set(os.listdir(tmpdir)) == keep, f"{label}: file written although none was requested"

    for ext in ("npy", "dat", "txt", "csv"):
        sub = tempfile.mkdtemp(dir=tmpdir)
        f_ql = os.path.join(sub, "ql." + ext)
        f_w = os.path.join(sub, "w." + ext)
        f_wcap = os.path.join(sub, "wcap." + ext)
        ql2 = boo.ql_Ql(coarse_graining=coarse_graining, outputfile=f_ql)
        w2, wcap2 = boo.w_W_cap(coarse_graining=coarse_graining, outputw=f_w, outputwcap=f_wcap)
        assert ql2.tobytes() == ql.tobytes(), f"{label}: repeated ql call differs"
        assert w2.tobytes() == w.tobytes() and wcap2.tobytes() == wcap.tobytes(), f"{label}: repeated w call differs"
        expected_files = []
        for path, values in ((f_ql, ql2), (f_w, w2), (f_wcap, wcap2)):
            # np.save appends ".npy" unless the name already ends with it
            binary = path if ext == "npy" else path + ".npy"
            expected_files.append(os.path.basename(binary))
            stored = np.load(binary)
            assert stored.dtype == values.dtype and stored.tobytes() == values.tobytes(), f"{label}: {binary}"
            if ext in ("dat", "txt"):
                expected_files.append(os.path.basename(path))
                text = np.loadtxt(path, ndmin=2)
                assert text.shape == values.shape, f"{label}: {path} shape"
                assert np.abs(text - values).max() <= 0.5000001e-6, f"{label}: {path} values"
                with open(path, encoding="utf-8") as f:
                    first = f.readline().split()
                assert all(len(tok.split(".")[1]) == 6 for tok in first), f"{label}: {path} format"
        check_files(sub, expected_files)
        shutil.rmtree(sub)

    # only one of the two w outputs requested
    sub = tempfile.mkdtemp(dir=tmpdir)
    boo.w_W_cap(coarse_graining=coarse_graining, outputwcap=os.path.join(sub, "only_cap.txt"))
    check_files(sub, ["only_cap.txt", "only_cap.txt.npy"])
    shutil.rmtree(sub)
    sub = tempfile.mkdtemp(dir=tmpdir)
    boo.w_W_cap(coarse_graining=coarse_graining, outputw=os.path.join(sub, "only_w"))
    check_files(sub, ["only_w.npy"])
    shutil.rmtree(sub)
    return ql, w, wcap


def fcc_case(tmpdir):
    ncell, a = 3, 1.6
    basis = np.array([[0, 0, 0], [0.5, 0.5, 0], [0.5, 0, 0.5], [0, 0.5, 0.5]])
    cells = np.array([[i, j, k] for i in range(ncell) for j in range(ncell) for k in range(ncell)])
    pos = (cells[:, None, :] + basis[None, :, :]).reshape(-1, 3) * a + 0.1
    hmatrix = np.diag([ncell * a] * 3)
    snapshots = make_snapshots([pos], hmatrix)
    neighbours = [neighbour_lists(pos, hmatrix, cutoff=0.8 * a)]
    assert all(len(nb) == 12 for nb in neighbours[0])
    nfile = os.path.join(tmpdir, "fcc.neighbor.dat")
    write_neighbours(nfile, neighbours)
    before = snapshot_bytes(snapshots)

    textbook = {4: (0.190941, -0.159317), 6: (0.574524, -0.013161)}
    for l, (q_exp, wcap_exp) in textbook.items():
        boo = boo_3d(snapshots, l=l, neighborfile=nfile)
        for coarse in (False, True):  # in a perfect crystal Qlm = qlm
            ql, w, wcap = run_output_modes(boo, tmpdir, coarse, f"fcc-l{l}-cg{coarse}")
            assert ql.shape == (1, pos.shape[0])
            np.testing.assert_allclose(ql, q_exp, atol=2e-6)
            np.testing.assert_allclose(wcap, wcap_exp, atol=2e-6)
            np.testing.assert_allclose(w, wcap_exp * ((2 * l + 1) / (4 * np.pi) * q_exp ** 2) ** 1.5, rtol=2e-4)
    assert snapshot_bytes(snapshots) == before, "fcc: snapshot arrays modified"


def random_triclinic_case(tmpdir):
    rng = np.random.default_rng(987654321)
    npart = 40
    hmatrix = np.array([[6.0, 0.0, 0.0], [-1.3, 5.5, 0.0], [0.8, -0.9, 5.0]])  # negative tilt factors
    list_pos = [rng.uniform(0, 1, size=(npart, 3)) @ hmatrix for _ in range(2)]
    snapshots = make_snapshots(list_pos, hmatrix)
    counts = rng.integers(3, 15, size=npart)  # unequal coordination numbers -> zero padded table
    counts[0], counts[1] = 1, 14
    neighbours = [neighbour_lists(pos, hmatrix, counts=counts) for pos in list_pos]
    nfile = os.path.join(tmpdir, "random.neighbor.dat")
    write_neighbours(nfile, neighbours)
    before = snapshot_bytes(snapshots)

    for l in (2, 6):
        boo = boo_3d(snapshots, l=l, neighborfile=nfile, Nmax=20)
        ql_ref, Ql_ref, norm_q, norm_Q = reference_ql(l, snapshots, neighbours)
        for coarse, ref, norm in ((False, ql_ref, norm_q), (True, Ql_ref, norm_Q)):
            ql, w, wcap = run_output_modes(boo, tmpdir, coarse, f"random-l{l}-cg{coarse}")
            assert ql.shape == (2, npart)
            np.testing.assert_allclose(ql, ref, rtol=1e-9, atol=1e-11)
            np.testing.assert_allclose(wcap, w * norm ** -1.5, rtol=1e-8, atol=1e-12)
    assert snapshot_bytes(snapshots) == before, "random: snapshot arrays modified"


def main():
    tmpdir = tempfile.mkdtemp()
    try:
        fcc_case(tmpdir)
        random_triclinic_case(tmpdir)
    finally:
        shutil.rmtree(tmpdir, ignore_errors=True)
    print("boo_3d save-helper demo: OK")
    return 0


if __name__ == "__main__":
    sys.exit(main())
