"""Demo for the numpy-idiom rewrite inside cutoffneighbors
(np.linalg.norm(v, axis=1) -> np.sqrt((v*v).sum(axis=1)),
 index_array[mask] -> np.where(mask)[0]).

Synthetic trajectories (2D/3D, orthogonal / triclinic with negative tilt,
several periodicity masks, frames with different particle numbers, cutoffs from
0 to larger than the typical spacing -> unequal coordination numbers, isolated
particles) are written through the public function, parsed by hand and through
read_neighbors (also with a truncating Nmax) and compared with a brute-force
reference written here.  The inclusive boundary is checked on an integer
configuration where the distance is exactly representable.  Exits 0 on success.
"""
import os
import shutil
import sys
import tempfile

import numpy as np

from PyMatterSim.neighbors.calculate_neighbors import cutoffneighbors
from PyMatterSim.neighbors.read_neighbors import read_neighbors
from PyMatterSim.reader.reader_utils import SingleSnapshot, Snapshots


def make_snapshot(positions, hmatrix):
    n = positions.shape[0]
    return SingleSnapshot(
        timestep=0,
        nparticle=n,
        particle_type=np.ones(n, dtype=int),
        positions=positions,
        boxlength=np.diag(hmatrix).copy(),
        boxbounds=None,
        realbounds=None,
        hmatrix=hmatrix,
    )


def reference_distances(positions, i, hmatrix, ppp):
    out = np.empty(positions.shape[0])
    for j in range(positions.shape[0]):
        d = positions[j] - positions[i]
        frac = np.linalg.solve(hmatrix.T, d)  # d = frac @ hmatrix
        for k in range(len(ppp)):
            if ppp[k]:
                frac[k] -= np.round(frac[k])
        out[j] = np.sqrt(np.sum((frac @ hmatrix) ** 2))
    return out


def reference_cutoff(positions, hmatrix, ppp, r_cut):
    """list of neighbour index lists (zero based), nearest first, self excluded"""
    result = []
    for i in range(positions.shape[0]):
        dist = reference_distances(positions, i, hmatrix, ppp)
        assert np.all(np.abs(dist - r_cut) > 1e-9) or r_cut == 0.0, "distance too close to the cutoff"
        members = [j for j in range(len(dist)) if j != i and dist[j] <= r_cut]
        members.sort(key=lambda j: dist[j])
        d = np.sort(dist[members])
        assert np.all(np.diff(d) > 1e-9), "near tie in synthetic input"
        result.append(members)
    return result


def parse_file(fn, frames):
    """hand-written parser: returns for each frame a list of neighbour lists (zero-based)"""
    with open(fn, "r", encoding="utf-8") as f:
        lines = f.read().split("\n")
    pointer = 0
    out = []
    for fr in frames:
        assert lines[pointer].split() == ["id", "cn", "neighborlist"]
        rows = []
        for i in range(fr.nparticle):
            item = [int(x) for x in lines[pointer + 1 + i].split()]
            assert item[0] == i + 1
            assert item[1] == len(item) - 2
            rows.append([x - 1 for x in item[2:]])
        out.append(rows)
        pointer += 1 + fr.nparticle
    assert all(l.strip() == "" for l in lines[pointer:])
    return out


def padded(rows, Nmax):
    cn = [min(len(r), Nmax) for r in rows]
    width = max(cn) if max(cn) < Nmax else Nmax
    table = np.zeros((len(rows), width + 1), dtype=np.int32)
    for i, r in enumerate(rows):
        table[i, 0] = cn[i]
        table[i, 1 : cn[i] + 1] = r[: cn[i]]
    return table


def main():
    rng = np.random.default_rng(11)
    cells = [
        np.diag([5.0, 6.5]),
        np.array([[5.0, 0.0], [-1.9, 6.5]]),
        np.diag([4.0, 5.0, 6.0]),
        np.array([[4.0, 0.0, 0.0], [-1.2, 5.0, 0.0], [0.9, -1.6, 6.0]]),
    ]
    tmpdir = tempfile.mkdtemp()
    nchecked = 0
    try:
        fn = os.path.join(tmpdir, "cut.dat")
        for hmatrix in cells:
            ndim = hmatrix.shape[0]
            masks = [[1] * ndim, [0] * ndim, ([0, 1, 1])[:ndim]]
            frames = []
            for n in (16, 11):
                pos = (rng.random((n, ndim)) * 1.4 - 0.2) @ hmatrix
                frames.append(make_snapshot(pos, hmatrix))
            snaps = Snapshots(nsnapshots=len(frames), snapshots=frames)
            for ppp in masks:
                for r_cut in (0.0, 0.6, 1.3, 2.1, 3.05):
                    cutoffneighbors(snaps, r_cut=r_cut, ppp=np.array(ppp), fnfile=fn)
                    got = parse_file(fn, frames)
                    for fr, rows in zip(frames, got):
                        ref = reference_cutoff(fr.positions, hmatrix, ppp, r_cut)
                        assert rows == ref, (rows, ref)
                        # never the particle itself, symmetric relation
                        for i, r in enumerate(rows):
                            assert i not in r
                            for j in r:
                                assert i in rows[j]
                        nchecked += 1
                    for Nmax in (200, 3, 1):
                        with open(fn, "r", encoding="utf-8") as f:
                            for fr, rows in zip(frames, got):
                                table = read_neighbors(f, fr.nparticle, Nmax)
                                expect = padded(rows, Nmax)
                                assert table.dtype == np.int32
                                assert table.shape == expect.shape, (table.shape, expect.shape)
                                assert np.array_equal(table, expect)

        # inclusive boundary, exactly representable distances (3-4-5 triangle),
        # cell edge 16 (power of two -> the fractional coordinates are exact)
        pos = np.array([[0.0, 0.0], [3.0, 4.0], [1.0, 0.0], [10.0, 10.0]])
        hmatrix = np.diag([16.0, 16.0])
        snaps = Snapshots(1, [make_snapshot(pos, hmatrix)])
        for ppp in ([1, 1], [0, 0]):
            cutoffneighbors(snaps, r_cut=5.0, ppp=np.array(ppp), fnfile=fn)
            rows = parse_file(fn, snaps.snapshots)[0]
            assert rows[0] == [2, 1], rows      # distance 1 then exactly 5
            assert rows[1] == [2, 0], rows      # sqrt(20) then exactly 5
            assert rows[2] == [0, 1], rows
            cutoffneighbors(snaps, r_cut=float(np.nextafter(5.0, 0.0)), ppp=np.array(ppp), fnfile=fn)
            rows = parse_file(fn, snaps.snapshots)[0]
            assert rows[0] == [2], rows
            assert rows[1] == [2], rows
            assert rows[2] == [0, 1], rows
        # across the periodic boundary: (10,10) and (0,0): image (-6,-6) -> sqrt(72) = 8.485...
        cutoffneighbors(snaps, r_cut=8.5, ppp=np.array([1, 1]), fnfile=fn)
        rows = parse_file(fn, snaps.snapshots)[0]
        assert 3 in rows[0] and 0 in rows[3], rows
        cutoffneighbors(snaps, r_cut=8.5, ppp=np.array([1, 0]), fnfile=fn)
        rows = parse_file(fn, snaps.snapshots)[0]
        assert 3 not in rows[0] and 0 not in rows[3], rows
    finally:
        shutil.rmtree(tmpdir)
    print(f"cutoffneighbors demo OK ({nchecked} frame comparisons)")
    return 0


if __name__ == "__main__":
    sys.exit(main())
