"""
Standalone demo / regression check for PyMatterSim.static.boo.boo_3d.

It builds small synthetic trajectories (orthogonal and triclinic cells with a
negative tilt, unequal coordination numbers -> zero-padded neighbour tables,
neighbour files written with unsorted particle ids, optional bond weights,
l = 4, 6 and 12, truncating Nmax, non-periodic direction, linear and
non-linear time grids) and perfect fcc / bcc / icosahedral environments, runs
the public boo_3d API on them and compares every returned quantity against a
straightforward reference implementation of Steinhardt's definitions written
here (scipy.special.sph_harm_y for Y_lm, sympy wigner_3j for w_l, brute-force
minimum image for the bonds).

Run: PYTHONPATH=<worktree> /venv/bin/python demo.py      (exit code 0 == OK)
"""

import itertools
import logging
import os
import shutil
import sys
import tempfile

import numpy as np
from scipy.special import sph_harm_y
from sympy.physics.wigner import wigner_3j

from PyMatterSim.reader.reader_utils import SingleSnapshot, Snapshots
from PyMatterSim.static.boo import boo_3d

logging.disable(logging.CRITICAL)

TOL = 1e-9
FOCUS = "qlm_Qlm coarse graining"


# --------------------------------------------------------------------------
# synthetic inputs
# --------------------------------------------------------------------------
def make_snapshots(frames, hmatrix, timesteps):
    hmatrix = np.asarray(hmatrix, dtype=float)
    boxlength = np.diag(hmatrix).copy()
    snaps = []
    for pos, ts in zip(frames, timesteps):
        snaps.append(SingleSnapshot(
            timestep=int(ts),
            nparticle=pos.shape[0],
            particle_type=np.ones(pos.shape[0], dtype=int),
            positions=np.array(pos, dtype=float),
            boxlength=boxlength,
            boxbounds=np.column_stack((np.zeros(3), boxlength)),
            realbounds=None,
            hmatrix=hmatrix,
        ))
    return Snapshots(nsnapshots=len(snaps), snapshots=snaps)


def images(hmatrix, ppp):
    ranges = [(-1, 0, 1) if p else (0,) for p in ppp]
    return np.array([np.dot(n, hmatrix) for n in itertools.product(*ranges)])


def min_image(d, shifts):
    """brute-force minimum image of one vector"""
    cand = d[np.newaxis, :] + shifts
    return cand[np.argmin((cand * cand).sum(axis=1))]


def cutoff_neighbors(pos, hmatrix, rc, ppp=(1, 1, 1)):
    """neighbours within rc (nearest first); a particle without any gets its nearest one"""
    shifts = images(hmatrix, ppp)
    out = []
    for i in range(pos.shape[0]):
        found = []
        for j in range(pos.shape[0]):
            if i == j:
                continue
            d = min_image(pos[j] - pos[i], shifts)
            found.append((np.sqrt((d * d).sum()), j))
        found.sort()
        assert max(rc, found[0][0]) < 0.48 * np.diag(hmatrix).min(), "minimum image must be unambiguous"
        out.append([j for r, j in found if r < rc] or [found[0][1]])
    return out


def nearest_neighbors(pos, hmatrix, k):
    shifts = images(hmatrix, (1, 1, 1))
    out = []
    for i in range(pos.shape[0]):
        found = []
        for j in range(pos.shape[0]):
            if i != j:
                d = min_image(pos[j] - pos[i], shifts)
                found.append((np.sqrt((d * d).sum()), j))
        found.sort()
        out.append([j for _, j in found[:k]])
    return out


def write_table(path, frames, header, fmt, offset, rng):
    """neighbour-style file; lines of every frame are written in shuffled id order"""
    with open(path, "w", encoding="utf-8") as f:
        for rows in frames:
            f.write(header + "\n")
            order = rng.permutation(len(rows)) if rng is not None else range(len(rows))
            for i in order:
                f.write("%d %d " % (i + 1, len(rows[i])))
                f.write(" ".join(fmt % (v + offset) for v in rows[i]) + "\n")


# --------------------------------------------------------------------------
# reference implementation (Steinhardt et al.)
# --------------------------------------------------------------------------
def ref_ylm(l, d):
    r = np.sqrt((d * d).sum())
    theta = np.arccos(d[2] / r)
    phi = np.arctan2(d[1], d[0])
    return np.array([sph_harm_y(l, m, theta, phi) for m in range(-l, l + 1)])


def ref_qlm(pos, hmatrix, nlist, l, weights=None, ppp=(1, 1, 1), Nmax=30):
    shifts = images(hmatrix, ppp)
    n = pos.shape[0]
    q = np.zeros((n, 2 * l + 1), dtype=complex)
    for i in range(n):
        neigh = nlist[i][:Nmax]
        w = np.ones(len(neigh)) if weights is None else np.array(weights[i][:Nmax], dtype=float)
        w = w / w.sum()
        for k, j in enumerate(neigh):
            q[i] += w[k] * ref_ylm(l, min_image(pos[j] - pos[i], shifts))
    Q = np.zeros_like(q)
    for i in range(n):
        neigh = nlist[i][:Nmax]
        Q[i] = (q[i] + sum(q[j] for j in neigh)) / (1 + len(neigh))
    return q, Q


def ref_ql(q, l):
    return np.sqrt(4 * np.pi / (2 * l + 1) * (np.abs(q) ** 2).sum(axis=-1))


W3J_CACHE = {}


def ref_w(q, l):
    if l not in W3J_CACHE:
        W3J_CACHE[l] = [(m1, m2, -m1 - m2, float(wigner_3j(l, l, l, m1, m2, -m1 - m2)))
                        for m1 in range(-l, l + 1) for m2 in range(-l, l + 1)
                        if abs(m1 + m2) <= l]
    w = np.zeros(q.shape[:-1])
    for m1, m2, m3, c in W3J_CACHE[l]:
        w += c * (q[..., m1 + l] * q[..., m2 + l] * q[..., m3 + l]).real
    return w, w / ((np.abs(q) ** 2).sum(axis=-1)) ** 1.5


def ref_sij(q, nlist, c, Nmax=30):
    """list over particles of the s_ij arrays"""
    sij = []
    for i in range(q.shape[0]):
        neigh = nlist[i][:Nmax]
        s = np.array([(q[i] * np.conj(q[j])).sum().real /
                      np.sqrt((np.abs(q[i]) ** 2).sum() * (np.abs(q[j]) ** 2).sum()) for j in neigh])
        sij.append(s)
    return sij


def ref_spatial(frames, hmatrix, qs, rdelta, ppp=(1, 1, 1)):
    hmatrix = np.asarray(hmatrix, dtype=float)
    hinv = np.linalg.inv(hmatrix)
    boxlength = np.diag(hmatrix)
    maxbin = int(boxlength.min() / 2.0 / rdelta)
    edges = np.linspace(0, maxbin * rdelta, maxbin + 1)
    gr_all, gA_all = np.zeros(maxbin), np.zeros(maxbin)
    for pos, q in zip(frames, qs):
        n = pos.shape[0]
        dist, prod = [], []
        for i in range(n - 1):
            for j in range(i + 1, n):
                s = np.dot(pos[j] - pos[i], hinv)
                d = np.dot(s - np.rint(s) * np.array(ppp), hmatrix)
                dist.append(np.sqrt((d * d).sum()))
                prod.append((q[j] * np.conj(q[i])).sum().real)
        hist = np.histogram(dist, bins=maxbin, range=(0, maxbin * rdelta))[0]
        histA = np.histogram(dist, bins=maxbin, range=(0, maxbin * rdelta), weights=prod)[0]
        nideal = 4.0 / 3 * np.pi * (edges[1:] ** 3 - edges[:-1] ** 3)
        rho = n / np.prod(boxlength)
        gr_all += hist * 2 / n / (nideal * rho)
        gA_all += histA * 2 / n / (nideal * rho)
    nf = len(frames)
    return edges[1:] - 0.5 * rdelta, gr_all / nf, gA_all / nf


def ref_time(qs, timesteps, dt):
    qs = np.asarray(qs)
    ts = np.asarray(timesteps)
    nf = len(ts)
    out = np.zeros(nf)
    if len(set(np.diff(ts))) == 1:
        for tau in range(nf):
            vals = [(qs[t] * np.conj(qs[t - tau])).sum().real for t in range(tau, nf)]
            out[tau] = np.mean(vals)
    else:
        for t in range(nf):
            out[t] = (qs[t] * np.conj(qs[0])).sum().real
    return (ts - ts[0]) * dt, out / out[0]


# --------------------------------------------------------------------------
# comparison of one boo_3d object against the reference
# --------------------------------------------------------------------------
NCHECK = [0]


def close(a, b, what, tol=TOL):
    a = np.asarray(a, dtype=complex if np.iscomplexobj(a) or np.iscomplexobj(b) else float)
    b = np.asarray(b, dtype=a.dtype)
    if a.shape != b.shape or not np.allclose(a, b, rtol=tol, atol=tol, equal_nan=True):
        err = np.abs(a - b).max() if a.shape == b.shape else "shape %s vs %s" % (a.shape, b.shape)
        print("MISMATCH in %s: %s" % (what, err))
        sys.exit(1)
    NCHECK[0] += 1


def check_case(name, tmp, frames, hmatrix, timesteps, nlists, l, weights=None,
               ppp=(1, 1, 1), Nmax=30, c=0.7, rdelta=0.25, dt=0.002, rng=None,
               do_corr=True):
    snaps = make_snapshots(frames, hmatrix, timesteps)
    nfile = os.path.join(tmp, name + ".neighbor.dat")
    write_table(nfile, nlists, "id   cn   neighborlist", "%d", 1, rng)
    wfile = None
    if weights is not None:
        wfile = os.path.join(tmp, name + ".facearea.dat")
        write_table(wfile, weights, "id   cn   facearealist", "%.17g", 0, rng)

    boo = boo_3d(snaps, l=l, neighborfile=nfile, weightsfile=wfile, ppp=np.array(ppp), Nmax=Nmax)

    ref = [ref_qlm(frames[n], np.asarray(hmatrix, float), nlists[n], l,
                   None if weights is None else weights[n], ppp, Nmax)
           for n in range(len(frames))]
    q = np.array([r[0] for r in ref])
    Q = np.array([r[1] for r in ref])
    close(boo.smallqlm, q, name + " smallqlm")
    close(boo.largeQlm, Q, name + " largeQlm")
    n_part = frames[0].shape[0]

    for cg, vec in ((False, q), (True, Q)):
        tag = "%s cg=%s " % (name, cg)
        # q_l, also through the file outputs
        out = os.path.join(tmp, name + "_ql_%d.dat" % cg)
        ql = boo.ql_Ql(coarse_graining=cg, outputfile=out)
        close(ql, ref_ql(vec, l), tag + "ql")
        if ql.min() < -1e-12 or ql.max() > 1 + 1e-12:
            print("q_l out of [0, 1] in " + tag)
            sys.exit(1)
        close(np.load(out + ".npy"), ql, tag + "ql npy", 0)
        close(np.loadtxt(out).reshape(ql.shape), ql, tag + "ql txt", 1e-6)

        # w_l and w-hat_l
        w, wcap = boo.w_W_cap(coarse_graining=cg)
        rw, rwcap = ref_w(vec, l)
        close(w, rw, tag + "w")
        close(wcap, rwcap, tag + "wcap", 1e-8)

        # s_ij and thresholded count
        csv = os.path.join(tmp, name + "_sum_%d.csv" % cg)
        txt = os.path.join(tmp, name + "_sij_%d.dat" % cg)
        res = boo.sij_ql_Ql(coarse_graining=cg, c=c, outputqlQl=csv, outputsij=txt)
        maxcn = max(min(len(x), Nmax) for fr in nlists for x in fr)
        if res.shape != (len(frames) * n_part, 2 + maxcn):
            print("wrong sij shape in " + tag, res.shape)
            sys.exit(1)
        table = np.loadtxt(csv, delimiter=",", skiprows=1).reshape(-1, 3)
        for n in range(len(frames)):
            rs = ref_sij(vec[n], nlists[n], c, Nmax)
            block = res[n * n_part:(n + 1) * n_part]
            for i in range(n_part):
                cn = len(rs[i])
                close(block[i, 0], i + 1, tag + "sij id")
                close(block[i, 1], cn, tag + "sij cn")
                close(block[i, 2:2 + cn], rs[i], tag + "sij values", 2e-6)
                close(block[i, 2 + cn:], 0 * block[i, 2 + cn:], tag + "sij padding", 0)
                if np.abs(rs[i]).max() > 1 + 1e-6:
                    print("|s_ij| > 1 in " + tag)
                    sys.exit(1)
                sure = np.abs(rs[i] - c) > 1e-5
                lo = int((rs[i][sure] > c).sum())
                hi = lo + int((~sure).sum())
                row = table[n * n_part + i]
                if not (row[0] == i + 1 and lo <= row[1] <= hi and row[2] == cn):
                    print("wrong thresholded count in " + tag, row, lo, hi, cn)
                    sys.exit(1)
        NCHECK[0] += 1
        saved = np.loadtxt(txt, skiprows=1).reshape(res.shape)
        close(saved, res, tag + "sij txt", 1e-6)

        if do_corr:
            gl = boo.spatial_corr(coarse_graining=cg, rdelta=rdelta)
            r, gr, gA = ref_spatial(frames, hmatrix, vec, rdelta, ppp)
            close(gl["r"].values, r, tag + "spatial r")
            close(gl["gr"].values, gr, tag + "spatial gr")
            close(gl["gA"].values, gA, tag + "spatial gA")
            tc = boo.time_corr(coarse_graining=cg, dt=dt)
            t, corr = ref_time(vec, timesteps, dt)
            close(tc["t"].values, t, tag + "time t")
            close(tc["time_corr"].values, corr, tag + "time corr")
    return boo


def random_frames(rng, nframe, n, hmatrix):
    return [np.dot(rng.random((n, 3)), np.asarray(hmatrix, float)) for _ in range(nframe)]


def crystal(basis, ncell, a=1.0):
    cells = np.array(list(itertools.product(range(ncell), repeat=3)), dtype=float)
    pos = (cells[:, np.newaxis, :] + np.asarray(basis)[np.newaxis, :, :]).reshape(-1, 3) * a
    return pos, np.diag([ncell * a] * 3)


def main():
    rng = np.random.default_rng(20240917)
    tmp = tempfile.mkdtemp()
    try:
        # 1. orthogonal cell, cutoff neighbours (unequal CN), shuffled ids, 3 frames
        h = np.diag([4.0, 4.4, 4.8])
        frames = random_frames(rng, 3, 26, h)
        nl = [cutoff_neighbors(p, h, 1.55) for p in frames]
        cns = {len(r) for fr in nl for r in fr}
        assert len(cns) > 2, "want unequal coordination numbers"
        check_case("ortho_l6", tmp, frames, h, [0, 50, 100], nl, 6, rng=rng, c=0.3)

        # 2. triclinic cell with negative tilt, weights, l = 4 and l = 12, log-like time grid
        ht = np.array([[4.2, 0.0, 0.0], [-0.9, 4.0, 0.0], [0.7, -0.6, 4.4]])
        frames = random_frames(rng, 3, 24, ht)
        nl = [cutoff_neighbors(p, ht, 1.45) for p in frames]
        wt = [[list(rng.random(len(r)) + 0.05) for r in fr] for fr in nl]
        check_case("tric_l4_w", tmp, frames, ht, [0, 10, 40], nl, 4, weights=wt, rng=rng, c=0.1)
        check_case("tric_l12_w", tmp, frames, ht, [0, 10, 40], nl, 12, weights=wt, rng=rng,
                   c=0.5, do_corr=False)
        check_case("tric_l12", tmp, frames[:2], ht, [7, 9], nl[:2], 12, rng=None, c=0.2,
                   do_corr=False)

        # equal weights reproduce the unweighted result
        eq = [[[2.5] * len(r) for r in fr] for fr in nl]
        b_eq = check_case("tric_l4_eq", tmp, frames, ht, [0, 10, 20], nl, 4, weights=eq, do_corr=False)
        b_un = check_case("tric_l4_un", tmp, frames, ht, [0, 10, 20], nl, 4, do_corr=False)
        close(b_eq.smallqlm, b_un.smallqlm, "equal weights", 1e-12)
        close(b_eq.largeQlm, b_un.largeQlm, "equal weights cg", 1e-12)

        # 3. truncating Nmax, non-periodic z, weights, odd l
        h = np.diag([3.6, 3.6, 5.0])
        frames = random_frames(rng, 2, 22, h)
        nl = [cutoff_neighbors(p, h, 1.7, (1, 1, 0)) for p in frames]
        assert max(len(r) for fr in nl for r in fr) > 6
        wt = [[list(rng.random(len(r)) + 0.1) for r in fr] for fr in nl]
        check_case("nmax_l5_w", tmp, frames, h, [0, 1], nl, 5, weights=wt, ppp=(1, 1, 0), Nmax=6,
                   rng=rng, c=0.0)
        check_case("nmax_l3", tmp, frames, h, [0, 1], nl, 3, ppp=(1, 1, 0), Nmax=6, rng=rng,
                   c=0.15, do_corr=False)

        # 4. perfect environments against the tabulated values
        table = {
            "fcc": ([[0, 0, 0], [.5, .5, 0], [.5, 0, .5], [0, .5, .5]], 3, 12,
                    {4: (0.190941, -0.159317), 6: (0.574524, -0.013161)}),
            "bcc": ([[0, 0, 0], [.5, .5, .5]], 3, 8,
                    {4: (0.509175, -0.159317), 6: (0.628540, 0.013161)}),
            "sc": ([[0, 0, 0]], 4, 6,
                   {4: (0.763763, 0.159317), 6: (0.353553, 0.013161)}),
        }
        for cname, (basis, ncell, k, expected) in table.items():
            pos, h = crystal(basis, ncell)
            pos = pos + np.array([0.13, 0.21, 0.05])
            nl = [nearest_neighbors(pos, h, k)]
            for l, (ql_ref, wcap_ref) in expected.items():
                boo = check_case("%s_l%d" % (cname, l), tmp, [pos], h, [0], nl, l, rng=rng,
                                 do_corr=False)
                for cg in (False, True):
                    close(boo.ql_Ql(cg), np.full((1, pos.shape[0]), ql_ref), cname + " q_l table", 2e-6)
                    close(boo.w_W_cap(cg)[1], np.full((1, pos.shape[0]), wcap_ref),
                          cname + " wcap table", 2e-6)
                res = np.concatenate(boo.sij_ql_Ql(c=0.7), axis=0)
                close(res[:, 2:2 + k], np.ones((pos.shape[0], k)), cname + " s_ij = 1", 1e-6)

        # icosahedron: centre + 12 vertices in a big box, the centre is particle 5
        g = (1 + np.sqrt(5)) / 2
        verts = np.array([[0, s1, s2 * g] for s1 in (1, -1) for s2 in (1, -1)], dtype=float)
        verts = np.vstack((verts, verts[:, [1, 2, 0]], verts[:, [2, 0, 1]]))
        pos = np.vstack((verts[:4], np.zeros((1, 3)), verts[4:])) + 10.0
        h = np.diag([20.0, 21.0, 22.0])
        nl = [[[4] if i != 4 else [j for j in range(13) if j != 4] for i in range(13)]]
        boo = check_case("icos_l6", tmp, [pos], h, [0], nl, 6, rng=rng, do_corr=False)
        close(boo.ql_Ql()[0, 4], 0.663325, "icos q6", 2e-6)
        close(boo.w_W_cap()[1][0, 4], -0.169754, "icos w6cap", 2e-6)
    finally:
        shutil.rmtree(tmp, ignore_errors=True)
    print("OK: %d comparisons passed (%s)" % (NCHECK[0], FOCUS))


if __name__ == "__main__":
    main()
