"""Demo for the structural refactoring of time_correlation that extracts the private helpers
_dump_style, _frame_product and _tensor_product and calls them from the original sites.

Exercises PyMatterSim.dynamic.time_corr.time_correlation (public function only) on synthetic series of
every rank, real and complex, evenly / unevenly spaced frames - in particular the vector and tensor
single-origin branches that the golden tests never execute - and compares with an independent reference
implementation of the documented property. Exits 0 on the original and refactored tree."""
import os
import shutil
import sys
import tempfile
import warnings

import numpy as np
import pandas as pd

from PyMatterSim.dynamic.time_corr import time_correlation
from PyMatterSim.reader.reader_utils import SingleSnapshot, Snapshots

warnings.simplefilter("ignore")  # complex tensors are cast to real with a ComplexWarning (unchanged behaviour)


def make_snapshots(timesteps, nparticle):
    empty = np.zeros(0)
    return Snapshots(
        nsnapshots=len(timesteps),
        snapshots=[SingleSnapshot(int(t), nparticle, empty, empty, empty, empty, empty, empty) for t in timesteps],
    )


def reference(timesteps, cond, dt):
    """independent implementation of the documented property (origin-averaged normalised autocorrelation)"""
    timesteps = np.asarray(timesteps)
    T = len(timesteps)
    gaps = [int(timesteps[k + 1]) - int(timesteps[k]) for k in range(T - 1)]
    even = T >= 2 and all(g == gaps[0] for g in gaps)

    def prod(later, earlier):
        if cond.ndim == 4:
            # trace(A conj(B)) summed over particles
            return np.einsum("nij,nji->", cond[later], np.conj(cond[earlier])).real
        return np.sum(cond[later] * np.conj(cond[earlier])).real

    corr = np.zeros(T)
    for lag in range(T):
        if even:
            vals = [prod(o + lag, o) for o in range(T - lag)]
            corr[lag] = sum(vals) / len(vals)
        else:
            corr[lag] = prod(lag, 0)
    corr = corr / corr[0]
    t = (timesteps - timesteps[0]) * dt
    return t, corr


def random_condition(rng, T, N, tail, complex_):
    shape = (T, N) + tail
    # offset keeps the lag-zero value and the correlations well away from zero
    c = rng.normal(size=shape) + 0.7
    if complex_:
        c = c + 1j * (rng.normal(size=shape) - 0.4)
    return c


def main():
    rng = np.random.default_rng(33)
    tmpdir = tempfile.mkdtemp()
    nchecked = 0
    try:
        series = {
            "even": lambda T: 100 + 10 * np.arange(T),  # first frame not at 0
            "even_unit": lambda T: np.arange(T),
            "uneven": lambda T: np.concatenate(([3], 3 + np.cumsum(np.arange(1, T) ** 2))) if T > 1 else np.array([3]),
            "log": lambda T: np.concatenate(([0], 2 ** np.arange(T - 1))) if T > 1 else np.array([0]),
        }
        for T in (1, 2, 3, 5, 8):
            for N in (1, 5):
                for tail in [(), (2,), (3,), (2, 2), (3, 3)]:
                    for complex_ in (False, True):
                        for sname, sfun in series.items():
                            for dt in (0.002, 0.5):
                                ts = sfun(T)
                                cond = random_condition(rng, T, N, tail, complex_)
                                snaps = make_snapshots(ts, N)
                                out = time_correlation(snaps, cond, dt=dt)
                                assert isinstance(out, pd.DataFrame)
                                assert list(out.columns) == ["t", "time_corr"], out.columns
                                assert out.shape == (T, 2)
                                t_ref, c_ref = reference(ts, cond, dt)
                                np.testing.assert_allclose(out["t"].values, t_ref, rtol=1e-12, atol=0)
                                np.testing.assert_allclose(out["time_corr"].values, c_ref, rtol=1e-9, atol=1e-11)
                                assert out["time_corr"].values[0] == 1.0
                                assert out["t"].values[0] == 0.0
                                nchecked += 1

        # hand-computed case: scalar series, evenly spaced, T=3, N=2
        cond = np.array([[1.0, 2.0], [3.0, -1.0], [0.5, 4.0]])
        out = time_correlation(make_snapshots([0, 5, 10], 2), cond, dt=0.1)
        c0 = (5.0 + 10.0 + 16.25) / 3
        c1 = ((3 - 2) + (1.5 - 4)) / 2
        c2 = 0.5 + 8.0
        np.testing.assert_allclose(out["time_corr"].values, [1.0, c1 / c0, c2 / c0], rtol=1e-13)
        np.testing.assert_allclose(out["t"].values, [0.0, 0.5, 1.0], rtol=1e-13)
        # same values, unevenly spaced frames: first frame is the only origin
        out = time_correlation(make_snapshots([0, 5, 11], 2), cond, dt=0.1)
        np.testing.assert_allclose(out["time_corr"].values, [1.0, 1.0 / 5.0, 8.5 / 5.0], rtol=1e-13)
        np.testing.assert_allclose(out["t"].values, [0.0, 0.5, 1.1], rtol=1e-13)
        # complex conjugate convention: later * conj(earlier); a pure phase rotation has real part cos
        phase = np.exp(1j * 0.3 * np.arange(4))[:, None] * np.ones((4, 3))
        out = time_correlation(make_snapshots([0, 1, 2, 3], 3), phase)
        np.testing.assert_allclose(out["time_corr"].values, np.cos(0.3 * np.arange(4)), rtol=1e-12)
        # hand-computed tensor case (trace of matrix product, not the elementwise product)
        A = np.array([[1.0, 2.0], [3.0, 4.0]])
        B = np.array([[0.0, 1.0], [5.0, 2.0]])
        cond = np.stack([A, B])[:, None]  # (T=2, N=1, 2, 2): evenly spaced (one gap)
        out = time_correlation(make_snapshots([7, 9], 1), cond)
        c0 = (np.trace(A @ A) + np.trace(B @ B)) / 2
        c1 = np.trace(B @ A)
        np.testing.assert_allclose(out["time_corr"].values, [1.0, c1 / c0], rtol=1e-13)
        nchecked += 5

        # wrong rank is rejected
        for bad in (np.ones(4), np.ones((2, 2, 2, 2, 2))):
            try:
                time_correlation(make_snapshots([0, 1], 2), bad)
            except ValueError:
                pass
            else:
                raise AssertionError("ValueError expected")

        # output file (csv with 8 decimals, header t,time_corr)
        cond = random_condition(rng, 5, 4, (3,), True)
        fname = os.path.join(tmpdir, "tc.csv")
        out = time_correlation(make_snapshots([0, 2, 4, 6, 8], 4), cond, dt=0.25, outputfile=fname)
        back = pd.read_csv(fname)
        assert list(back.columns) == ["t", "time_corr"]
        np.testing.assert_allclose(back.values, out.values, atol=5.1e-9)
        with open(fname, encoding="utf-8") as f:
            lines = f.read().split()
        assert lines[0] == "t,time_corr" and lines[1] == "0.00000000,1.00000000", lines[:2]
        # FOCUS: vector and tensor series with unevenly spaced frames, explicit loops as reference
        ts = [0, 1, 2, 4, 8, 16, 32]
        for N in (1, 4):
            for d in (2, 3):
                for complex_ in (False, True):
                    vec = random_condition(rng, len(ts), N, (d,), complex_)
                    out = time_correlation(make_snapshots(ts, N), vec)
                    expect = np.zeros(len(ts))
                    for k in range(len(ts)):
                        for j in range(N):
                            for a in range(d):
                                expect[k] += (vec[k, j, a] * np.conj(vec[0, j, a])).real
                    np.testing.assert_allclose(out["time_corr"].values, expect / expect[0], rtol=1e-11, atol=1e-13)
                    ten = random_condition(rng, len(ts), N, (d, d), complex_)
                    out = time_correlation(make_snapshots(ts, N), ten)
                    expect = np.zeros(len(ts))
                    for k in range(len(ts)):
                        for j in range(N):
                            for a in range(d):
                                for b in range(d):
                                    expect[k] += (ten[k, j, a, b] * np.conj(ten[0, j, b, a])).real
                    np.testing.assert_allclose(out["time_corr"].values, expect / expect[0], rtol=1e-11, atol=1e-13)
                    nchecked += 2
    finally:
        shutil.rmtree(tmpdir, ignore_errors=True)
    print(f"OK: {nchecked} cases agree with the reference")
    return 0


if __name__ == "__main__":
    logging = __import__("logging")
    logging.disable(logging.CRITICAL)
    sys.exit(main())
