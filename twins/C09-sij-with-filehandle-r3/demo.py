"""Demo for the 3D bond-orientational order code paths (property C09).

Builds small synthetic trajectories (orthogonal and triclinic with a negative
tilt, unequal coordination numbers, shuffled line order in one frame, optional
bond weights), runs PyMatterSim.static.boo.boo_3d through its public methods and
compares every result with a straightforward reference written here (scipy
spherical harmonics, sympy Wigner 3-j symbols, brute-force minimum image).

Exit status 0 = everything agrees.
"""

import itertools
import os
import shutil
import sys
import tempfile

import numpy as np
from scipy.special import sph_harm_y
from sympy.physics.wigner import wigner_3j

from PyMatterSim.reader.reader_utils import SingleSnapshot, Snapshots
from PyMatterSim.static.boo import boo_3d
from PyMatterSim.utils.funcs import Wignerindex
from PyMatterSim.utils.spherical_harmonics import sph_harm_l

TOL = 1e-9
FAILED = []


def check(name, ok):
    if not ok:
        FAILED.append(name)
        print("FAIL", name)


def close(a, b, tol=TOL):
    a = np.asarray(a)
    b = np.asarray(b)
    return a.shape == b.shape and np.allclose(a, b, rtol=tol, atol=tol)


# ---------------------------------------------------------------- inputs
def make_cell(triclinic):
    if triclinic:
        # rows are the cell vectors; negative xz tilt
        return np.array([[9.0, 0.0, 0.0], [1.2, 8.5, 0.0], [-0.9, 0.6, 8.0]])
    return np.diag([9.0, 8.5, 8.0])


def min_image(rij, h):
    """brute-force minimum image over the 27 neighbouring cells"""
    best = None
    for s in itertools.product((-1, 0, 1), repeat=3):
        cand = rij + np.array(s, dtype=float) @ h
        if best is None or np.linalg.norm(cand) < np.linalg.norm(best):
            best = cand
    return best


def make_frames(rng, nframes, n, triclinic):
    h = make_cell(triclinic)
    frames = []
    nlists = []
    base = rng.random((n, 3))
    for f in range(nframes):
        frac = (base + 0.03 * f * rng.standard_normal((n, 3))) % 1.0
        pos = frac @ h
        frames.append(SingleSnapshot(
            timestep=100 * f, nparticle=n, particle_type=np.ones(n, dtype=int),
            positions=pos, boxlength=np.array([h[0, 0], h[1, 1], h[2, 2]]),
            boxbounds=np.array([[0, h[0, 0]], [0, h[1, 1]], [0, h[2, 2]]]),
            realbounds=np.array([[0, h[0, 0]], [0, h[1, 1]], [0, h[2, 2]]]),
            hmatrix=h))
        # k_i nearest neighbours, k_i different for every particle (1..7)
        nl = []
        for i in range(n):
            d = np.array([np.linalg.norm(min_image(pos[j] - pos[i], h)) if j != i else np.inf
                          for j in range(n)])
            k = int(rng.integers(1, 8))
            order = np.argsort(d)[:k]
            nl.append(list(rng.permutation(order)))
        nlists.append(nl)
    return Snapshots(nsnapshots=nframes, snapshots=frames), nlists


def write_files(tmp, tag, nlists, weights, shuffle_frame, rng):
    fn = os.path.join(tmp, tag + ".neighbor.dat")
    fw = os.path.join(tmp, tag + ".weights.dat") if weights is not None else None
    with open(fn, "w", encoding="utf-8") as f:
        for n, nl in enumerate(nlists):
            f.write("id     cn     neighborlist\n")
            rows = list(range(len(nl)))
            if n == shuffle_frame:
                rows = list(rng.permutation(rows))
            for i in rows:
                f.write("%d %d %s\n" % (i + 1, len(nl[i]), " ".join(str(j + 1) for j in nl[i])))
    if fw:
        with open(fw, "w", encoding="utf-8") as f:
            for n, nl in enumerate(nlists):
                f.write("id     cn     facearealist\n")
                for i in range(len(nl)):
                    f.write("%d %d %s\n" % (i + 1, len(nl[i]),
                                            " ".join("%.10f" % w for w in weights[n][i])))
    return fn, fw


# ---------------------------------------------------------------- reference
def ref_qlm(snaps, nlists, l, weights):
    ms = np.arange(-l, l + 1)
    small = []
    large = []
    for n, snap in enumerate(snaps.snapshots):
        pos, h = snap.positions, snap.hmatrix
        q = np.zeros((snap.nparticle, 2 * l + 1), dtype=complex)
        for i, nb in enumerate(nlists[n]):
            wsum = 0.0
            for k, j in enumerate(nb):
                r = min_image(pos[j] - pos[i], h)
                theta = np.arccos(r[2] / np.linalg.norm(r))
                phi = np.arctan2(r[1], r[0])
                w = 1.0 if weights is None else float("%.10f" % weights[n][i][k])
                q[i] += w * sph_harm_y(l, ms, theta, phi)
                wsum += w
            q[i] /= wsum
        Q = np.zeros_like(q)
        for i, nb in enumerate(nlists[n]):
            Q[i] = (q[i] + sum(q[j] for j in nb)) / (1 + len(nb))
        small.append(q)
        large.append(Q)
    return np.array(small), np.array(large)


def ref_w(vec, l):
    out = np.zeros(vec.shape[:2])
    table = []
    for m1 in range(-l, l + 1):
        for m2 in range(-l, l + 1):
            m3 = -m1 - m2
            if abs(m3) <= l:
                table.append((m1 + l, m2 + l, m3 + l, float(wigner_3j(l, l, l, m1, m2, m3))))
    for n in range(vec.shape[0]):
        for i in range(vec.shape[1]):
            v = vec[n, i]
            out[n, i] = sum((v[a] * v[b] * v[c]).real * w for a, b, c, w in table)
    cap = out / np.power((np.abs(vec) ** 2).sum(axis=2), 1.5)
    return out, cap


def ref_sij(vec, nlists, c):
    frames = []
    for n, nl in enumerate(nlists):
        rows = []
        for i, nb in enumerate(nl):
            s = [(np.vdot(vec[n, j], vec[n, i])).real /
                 (np.linalg.norm(vec[n, i]) * np.linalg.norm(vec[n, j])) for j in nb]
            rows.append(s)
        frames.append(rows)
    return frames


def ref_time_corr(vec):
    nf = vec.shape[0]
    res = np.zeros(nf)
    cnt = np.zeros(nf)
    for n in range(nf):
        for nn in range(n + 1):
            res[nn] += (vec[n] * np.conj(vec[n - nn])).sum().real
            cnt[nn] += 1
    res /= cnt
    return res / res[0]


# ---------------------------------------------------------------- driver
def run_case(tmp, rng, tag, l, triclinic, weighted, nframes=3, n=24):
    snaps, nlists = make_frames(rng, nframes, n, triclinic)
    weights = None
    if weighted == "random":
        weights = [[list(0.2 + rng.random(len(nb))) for nb in nl] for nl in nlists]
    elif weighted == "equal":
        weights = [[[0.75] * len(nb) for nb in nl] for nl in nlists]
    fn, fw = write_files(tmp, tag, nlists, weights, shuffle_frame=1, rng=rng)

    boo = boo_3d(snaps, l=l, neighborfile=fn, weightsfile=fw, Nmax=12)
    rq, rQ = ref_qlm(snaps, nlists, l, weights)
    check(tag + " qlm", close(boo.smallqlm, rq))
    check(tag + " Qlm", close(boo.largeQlm, rQ))
    if weighted == "equal":
        uq, uQ = ref_qlm(snaps, nlists, l, None)
        check(tag + " equal weights == unweighted", close(boo.smallqlm, uq) and close(boo.largeQlm, uQ))

    for cg, vec in ((False, rq), (True, rQ)):
        name = "%s cg=%s " % (tag, cg)
        # q_l
        out = os.path.join(tmp, "%s_ql_%d.dat" % (tag, cg))
        ql = boo.ql_Ql(coarse_graining=cg, outputfile=out)
        rql = np.sqrt(4 * np.pi / (2 * l + 1) * (np.abs(vec) ** 2).sum(axis=2))
        check(name + "ql", close(ql, rql))
        check(name + "ql range", bool((ql >= 0).all() and (ql <= 1 + 1e-12).all()))
        check(name + "ql npy", close(np.load(out + ".npy"), rql))
        check(name + "ql txt", close(np.loadtxt(out, ndmin=2), rql, 1e-6))

        # w_l
        outw = os.path.join(tmp, "%s_w_%d.txt" % (tag, cg))
        outc = os.path.join(tmp, "%s_wcap_%d" % (tag, cg))
        w, wcap = boo.w_W_cap(coarse_graining=cg, outputw=outw, outputwcap=outc)
        rw, rcap = ref_w(vec, l)
        check(name + "w", close(w, rw))
        check(name + "wcap", close(wcap, rcap))
        check(name + "w files", close(np.load(outw + ".npy"), rw) and close(np.load(outc + ".npy"), rcap)
              and close(np.loadtxt(outw, ndmin=2), rw, 1e-6))

        # s_ij
        c = 0.55
        outq = os.path.join(tmp, "%s_sum_%d.csv" % (tag, cg))
        outs = os.path.join(tmp, "%s_sij_%d.dat" % (tag, cg))
        got = boo.sij_ql_Ql(coarse_graining=cg, c=c, outputqlQl=outq, outputsij=outs)
        rs = ref_sij(vec, nlists, c)
        maxcn = max(len(nb) for nl in nlists for nb in nl)
        check(name + "sij shape", got.shape == (nframes * n, 2 + maxcn))
        okv = True
        okc = True
        csv = np.loadtxt(outq, delimiter=",", skiprows=1, ndmin=2)
        txt = np.loadtxt(outs, skiprows=1, ndmin=2)
        for f in range(nframes):
            for i in range(n):
                row = got[f * n + i]
                s = np.array(rs[f][i])
                k = len(s)
                okv &= int(row[0]) == i + 1 and int(row[1]) == k
                okv &= bool(np.allclose(row[2:2 + k], s, atol=2e-6)) and bool((row[2 + k:] == 0).all())
                okv &= bool((np.abs(row[2:]) <= 1 + 1e-6).all())
                okv &= bool(np.allclose(txt[f * n + i], row, atol=1e-6))
                cnt = int((np.float32(1) * s.astype(np.float32) > np.float32(c)).sum())
                # only compare the count when no s_ij sits within rounding of the threshold
                if (np.abs(s - c) > 1e-5).all():
                    okc &= list(csv[f * n + i].astype(int)) == [i + 1, cnt, k]
        check(name + "sij values", okv)
        check(name + "sij counts", okc)
        # without output files a list with one array per frame is returned
        lst = boo.sij_ql_Ql(coarse_graining=cg, c=c)
        check(name + "sij list", isinstance(lst, list) and len(lst) == nframes and
              close(np.concatenate(lst, axis=0)[:, :2 + maxcn], got, 1e-12))

        # time correlation
        tc = boo.time_corr(coarse_graining=cg, dt=0.01)
        check(name + "time_corr", close(tc["time_corr"].values, ref_time_corr(vec)) and
              close(tc["t"].values, np.arange(nframes) * 100 * 0.01))

    # spatial correlation: g(r) columns are finite and the call is reproducible
    g1 = boo.spatial_corr(coarse_graining=False, rdelta=0.25)
    g2 = boo.spatial_corr(coarse_graining=False, rdelta=0.25)
    check(tag + " spatial_corr", bool(np.isfinite(g1.values[:, :2]).all()) and
          np.array_equal(g1.values, g2.values, equal_nan=True))


def crystal_case(tmp):
    """perfect fcc, 12 nearest neighbours: q4 = 0.19094, q6 = 0.57452, w-hat6 = -0.013161"""
    a = 2.0
    ncell = 3
    basis = np.array([[0, 0, 0], [0.5, 0.5, 0], [0.5, 0, 0.5], [0, 0.5, 0.5]])
    pos = np.array([(np.array(c) + b) * a for c in itertools.product(range(ncell), repeat=3) for b in basis])
    n = len(pos)
    h = np.diag([a * ncell] * 3)
    snap = SingleSnapshot(timestep=0, nparticle=n, particle_type=np.ones(n, dtype=int), positions=pos,
                          boxlength=np.diag(h).copy(), boxbounds=np.array([[0, a * ncell]] * 3),
                          realbounds=np.array([[0, a * ncell]] * 3), hmatrix=h)
    snaps = Snapshots(nsnapshots=1, snapshots=[snap])
    nl = []
    for i in range(n):
        d = np.array([np.linalg.norm(min_image(pos[j] - pos[i], h)) if j != i else np.inf for j in range(n)])
        nl.append(list(np.argsort(d, kind="stable")[:12]))
    fn, _ = write_files(tmp, "fcc", [nl], None, shuffle_frame=-1, rng=None)
    for l, qref, wcapref in ((4, 0.190941, -0.159317), (6, 0.574524, -0.013161)):
        boo = boo_3d(snaps, l=l, neighborfile=fn, Nmax=30)
        check("fcc q%d" % l, close(boo.ql_Ql(), np.full((1, n), qref), 1e-5))
        check("fcc Q%d" % l, close(boo.ql_Ql(coarse_graining=True), np.full((1, n), qref), 1e-5))
        check("fcc wcap%d" % l, close(boo.w_W_cap()[1], np.full((1, n), wcapref), 1e-5))
        s = boo.sij_ql_Ql(c=0.7)[0]
        check("fcc sij%d" % l, bool(np.allclose(s[:, 2:14], 1.0, atol=1e-6)) and bool((s[:, 1] == 12).all()))


def helper_checks():
    """sph_harm_l against scipy for every degree, and the Wigner table"""
    rng = np.random.default_rng(7)
    for l in list(range(1, 13)) + [np.int64(6), 6.0, 14]:
        for theta, phi in [(0.3, -2.5), (2.9, 3.0), (float(np.arccos(1.0)), 0.0),
                           (rng.uniform(0, np.pi), rng.uniform(-np.pi, np.pi))]:
            got = sph_harm_l(l, theta, phi)
            li = int(l)
            ref = sph_harm_y(li, np.arange(-li, li + 1), theta, phi)
            check("sph_harm_l l=%r" % (l,), close(got, ref, 1e-10))
    for bad in (0, -3, 2.5):
        check("sph_harm_l(%r) is None" % (bad,), sph_harm_l(bad, 0.4, 0.5) is None)
    for l in (2, 3, 4):
        tab = Wignerindex(l)
        ref = [(m1, m2, m3, float(wigner_3j(l, l, l, m1, m2, m3)))
               for m1 in range(-l, l + 1) for m2 in range(-l, l + 1) for m3 in range(-l, l + 1)
               if m1 + m2 + m3 == 0]
        check("Wignerindex(%d)" % l, tab.shape == (len(ref), 4) and
              close(np.array(tab, dtype=float), np.array(ref), 1e-12))


def main():
    tmp = tempfile.mkdtemp()
    try:
        rng = np.random.default_rng(20240909)
        helper_checks()
        crystal_case(tmp)
        run_case(tmp, rng, "ortho_l6", 6, False, None)
        run_case(tmp, rng, "tri_l4_w", 4, True, "random")
        run_case(tmp, rng, "tri_l2_eq", 2, True, "equal", nframes=2)
        run_case(tmp, rng, "tri_l11", 11, True, None, nframes=2, n=12)
        run_case(tmp, rng, "ortho_l12_w", 12, False, "random", nframes=2, n=10)
    finally:
        shutil.rmtree(tmp, ignore_errors=True)
    if FAILED:
        print("FAILED:", FAILED)
        return 1
    print("all checks passed")
    return 0


if __name__ == "__main__":
    sys.exit(main())
