"""
Demo for the refactoring of PyMatterSim/static/gr.py:conditional_gr
(see notes.md in this directory; FOCUS below names the part stressed here).

Builds small synthetic configurations (2D / 3D, orthogonal / triclinic with negative
tilt), runs the public conditional_gr for every kind of condition and compares with a
brute-force all-pairs reference written here.  Exits 0 when everything agrees.
"""
import logging
import sys
import warnings

import numpy as np

from PyMatterSim.reader.reader_utils import SingleSnapshot
from PyMatterSim.static.gr import conditional_gr

FOCUS = "dtype / conditiontype dispatch (log text, conjugate partner, Natom, gA_norm flag)"
RTOL, ATOL = 1e-9, 1e-10


class _Collect(logging.Handler):
    def __init__(self):
        super().__init__()
        self.messages = []

    def emit(self, record):
        self.messages.append(record.getMessage())


def make_snapshot(rng, n, ndim, triclinic):
    L = rng.uniform(4.0, 6.0, size=ndim)
    h = np.diag(L)
    if triclinic:
        h[1, 0] = -0.3 * L[0]  # negative tilt
        if ndim == 3:
            h[2, 0] = 0.2 * L[0]
            h[2, 1] = -0.25 * L[1]
    pos = rng.random((n, ndim)) @ h
    bounds = np.column_stack([np.zeros(ndim), L])
    return SingleSnapshot(timestep=0, nparticle=n, particle_type=rng.integers(1, 3, n),
                          positions=pos, boxlength=L, boxbounds=bounds,
                          realbounds=bounds, hmatrix=h)


def pair_weight(A, kind):
    """w_ij for all i < j, written with whole-array expressions"""
    n = A.shape[0]
    ii, jj = np.triu_indices(n, 1)
    if kind == "scalar":
        return (A[jj] * np.conj(A[ii])).real
    if kind == "vector":
        return np.einsum("pk,pk->p", A[jj], np.conj(A[ii])).real
    if kind == "tensor":
        return np.einsum("pab,pba->p", A[ii], A[jj])
    raise AssertionError(kind)


def reference(snap, weights, nsel, rdelta, ppp):
    """brute force: all pairs, fractional-coordinate wrapping, shell normalisation"""
    pos, h, L = snap.positions, snap.hmatrix, snap.boxlength
    n, ndim = pos.shape
    ii, jj = np.triu_indices(n, 1)
    frac = (pos[jj] - pos[ii]) @ np.linalg.inv(h)
    frac = frac - np.rint(frac) * np.asarray(ppp)[None, :]
    dist = np.sqrt((np.square(frac @ h)).sum(axis=1))
    maxbin = int(L.min() / 2.0 / rdelta)
    idx = np.floor(dist / rdelta).astype(int)
    keep = idx < maxbin
    edges = np.arange(maxbin + 1) * rdelta
    shell = (np.pi if ndim == 2 else 4.0 / 3.0 * np.pi) * (edges[1:]**ndim - edges[:-1]**ndim)
    volume = np.prod(L)
    out = {"r": edges[1:] - 0.5 * rdelta}
    hist = np.bincount(idx[keep], minlength=maxbin).astype(float)
    out["gr"] = hist * 2 / n / (shell * n / volume)
    histA = np.bincount(idx[keep], weights=weights[keep], minlength=maxbin)
    with np.errstate(all="ignore"):
        out["gA"] = histA * 2 / nsel / (shell * (nsel / volume))
    return out


def close(a, b):
    return np.allclose(np.asarray(a, dtype=float), np.asarray(b, dtype=float),
                       rtol=RTOL, atol=ATOL, equal_nan=True)


def main():
    rng = np.random.default_rng(2024)
    collector = _Collect()
    logging.getLogger("PyMatterSim.static.gr").addHandler(collector)
    failures = []

    def check(ok, what):
        if not ok:
            failures.append(what)

    for ndim in (2, 3):
        for tri in (False, True):
            n = 46
            snap = make_snapshot(rng, n, ndim, tri)
            ppp = np.ones(ndim, dtype=int)
            tag = f"{ndim}D tri={tri}"
            sel = rng.random(n) < 0.4
            flt = rng.normal(size=n) + 0.7
            cases = [
                # name, condition, conditiontype, array used for weights, weight kind, Nsel, log text, has gA_norm
                ("bool", sel, None, sel.astype(float), "scalar", sel.sum(),
                 f"Calculate g(r) for {sel.sum()} selected atoms", False),
                ("ones", np.ones(n), None, np.ones(n), "scalar", n,
                 "Calculate spatial correlation gA of float-scalar physical quantity 'A'", True),
                ("float", flt, None, flt, "scalar", n,
                 "Calculate spatial correlation gA of float-scalar physical quantity 'A'", True),
                ("int", rng.integers(-3, 4, n), "", None, "scalar", n,
                 "Calculate spatial correlation gA of float-scalar physical quantity 'A'", True),
                ("complex", rng.normal(size=n) + 1j * rng.normal(size=n), None, None, "scalar", n,
                 "Calculate spatial correlation gA of complex-number physical quantity 'A'", False),
                ("vector", rng.normal(size=(n, ndim)), "vector", None, "vector", n,
                 "Calculate spatial correlation gA of vector-type physical quantity 'A'", False),
                ("complex vector", rng.normal(size=(n, 5)) + 1j * rng.normal(size=(n, 5)), "vector", None,
                 "vector", n, "Calculate spatial correlation gA of complex-number physical quantity 'A'", False),
                ("tensor", rng.normal(size=(n, ndim, ndim)), "tensor", None, "tensor", n,
                 "Calculate spatial correlation gA of tensor-type physical quantity 'A'", False),
            ]
            # symmetric traceless tensor as used for nematic order
            cases.append(("symmetric tensor", cases[-1][1] + np.transpose(cases[-1][1], (0, 2, 1)), "tensor",
                          None, "tensor", n, cases[-1][6], False))
            for name, cond, ctype, warr, wkind, nsel, text, has_norm in cases:
                for rdelta in (0.05, 0.137):
                    orig = cond.copy()
                    collector.messages.clear()
                    with warnings.catch_warnings():
                        warnings.simplefilter("ignore")
                        df = conditional_gr(snap, cond, ctype, ppp, rdelta)
                    check(np.array_equal(cond, orig) and cond.dtype == orig.dtype, f"{tag} {name}: input modified")
                    check(collector.messages == [text], f"{tag} {name}: log {collector.messages}")
                    ref = reference(snap, pair_weight(cond if warr is None else warr, wkind), nsel, rdelta, ppp)
                    cols = ["r", "gr", "gA"] + (["gA_norm"] if has_norm else [])
                    check(list(df.columns) == cols, f"{tag} {name}: columns {list(df.columns)}")
                    for c in ("r", "gr", "gA"):
                        check(close(df[c].values, ref[c]), f"{tag} {name} rdelta={rdelta}: column {c}")
                    if has_norm:
                        a = np.asarray(cond, dtype=float)
                        m2, s2 = a.mean()**2, (a * a).mean()
                        with np.errstate(all="ignore"):
                            expect = (ref["gA"] - m2) / (s2 - m2)
                        if name == "ones":  # 0 / 0 or x / 0: only the pattern is defined
                            got = df["gA_norm"].values
                            check(not np.isfinite(got).any(), f"{tag} ones: gA_norm finite")
                        else:
                            check(close(df["gA_norm"].values, expect), f"{tag} {name}: gA_norm")
                    if name == "ones":
                        check(close(df["gA"].values, df["gr"].values), f"{tag}: A=1 is not the total g(r)")

            # a boolean selection of one species is that species' partial g_aa
            species = snap.particle_type == 2
            df = conditional_gr(snap, species, None, ppp, 0.1)
            sub = SingleSnapshot(timestep=0, nparticle=int(species.sum()), particle_type=snap.particle_type[species],
                                 positions=snap.positions[species], boxlength=snap.boxlength,
                                 boxbounds=snap.boxbounds, realbounds=snap.realbounds, hmatrix=snap.hmatrix)
            ns = int(species.sum())
            part = reference(sub, np.ones(ns * (ns - 1) // 2), ns, 0.1, ppp)
            check(close(df["gA"].values, part["gr"]), f"{tag}: partial g_aa")

            # a vector field is the sum over its components
            vec = rng.normal(size=(n, ndim))
            dv = conditional_gr(snap, vec, "vector", ppp, 0.1)["gA"].values
            dc = sum(conditional_gr(snap, vec[:, k].copy(), None, ppp, 0.1)["gA"].values for k in range(ndim))
            check(close(dv, dc), f"{tag}: vector != sum of components")

            # empty selection: everything divided by zero, no exception
            with warnings.catch_warnings():
                warnings.simplefilter("ignore")
                de = conditional_gr(snap, np.zeros(n, dtype=bool), None, ppp, 0.1)
            check(list(de.columns) == ["r", "gr", "gA"] and not np.isfinite(de["gA"].values).any()
                  and np.isfinite(de["gr"].values).all(), f"{tag}: empty selection")

            # one open direction
            ppp_open = ppp.copy()
            ppp_open[-1] = 0
            do = conditional_gr(snap, flt, None, ppp_open, 0.1)
            ro = reference(snap, pair_weight(flt, "scalar"), n, 0.1, ppp_open)
            check(close(do["gA"].values, ro["gA"]) and close(do["gr"].values, ro["gr"]), f"{tag}: ppp with 0")

            # wrong conditiontype is refused, after the scalar message
            collector.messages.clear()
            try:
                conditional_gr(snap, flt, "matrix", ppp, 0.1)
                check(False, f"{tag}: wrong conditiontype accepted")
            except ValueError as err:
                check("input conditiontype matrix is not correct" in str(err), f"{tag}: error text {err}")

    if failures:
        print(f"FAILED ({FOCUS}):")
        for f in failures:
            print("  -", f)
        return 1
    print(f"demo OK ({FOCUS})")
    return 0


if __name__ == "__main__":
    sys.exit(main())
