"""Demo for the purely syntactic refactoring of Nnearests.

Builds small synthetic trajectories (2D/3D, orthogonal and triclinic cells with
negative tilt, several periodicity masks, frames with different particle
numbers, N = 1 ... nparticle - 1), writes the N-nearest list through the public
function, parses the text file by hand AND through read_neighbors, and compares
with a brute-force reference written here.  Exits 0 on success.
"""
import os
import shutil
import sys
import tempfile

import numpy as np

from PyMatterSim.neighbors.calculate_neighbors import Nnearests
from PyMatterSim.neighbors.read_neighbors import read_neighbors
from PyMatterSim.reader.reader_utils import SingleSnapshot, Snapshots


def make_snapshot(positions, hmatrix):
    n = positions.shape[0]
    return SingleSnapshot(
        timestep=0,
        nparticle=n,
        particle_type=np.ones(n, dtype=int),
        positions=positions,
        boxlength=np.diag(hmatrix).copy(),
        boxbounds=None,
        realbounds=None,
        hmatrix=hmatrix,
    )


def reference_distances(positions, i, hmatrix, ppp):
    """distances from particle i, image convention: round fractional coordinates
    along the periodic directions (written independently of the library)"""
    out = np.empty(positions.shape[0])
    for j in range(positions.shape[0]):
        d = positions[j] - positions[i]
        frac = np.linalg.solve(hmatrix.T, d)  # d = frac @ hmatrix
        for k in range(len(ppp)):
            if ppp[k]:
                frac[k] -= np.round(frac[k])
        out[j] = np.sqrt(np.sum((frac @ hmatrix) ** 2))
    return out


def reference_nnearest(positions, hmatrix, ppp, N):
    n = positions.shape[0]
    ref = np.zeros((n, N + 1), dtype=int)
    for i in range(n):
        dist = reference_distances(positions, i, hmatrix, ppp)
        order = [j for j in np.argsort(dist, kind="stable") if j != i]
        full = np.sort(dist)
        assert np.all(np.diff(full) > 1e-9), "synthetic input has a near tie"
        ref[i, 0] = N
        ref[i, 1:] = order[:N]
    return ref


def main():
    rng = np.random.default_rng(5)
    cells = [
        np.diag([5.0, 6.5]),
        np.array([[5.0, 0.0], [-1.9, 6.5]]),
        np.diag([4.0, 5.0, 6.0]),
        np.array([[4.0, 0.0, 0.0], [-1.2, 5.0, 0.0], [0.9, -1.6, 6.0]]),
    ]
    tmpdir = tempfile.mkdtemp()
    nchecked = 0
    try:
        for hmatrix in cells:
            ndim = hmatrix.shape[0]
            masks = [[1] * ndim, [0] * ndim, ([1, 0, 1])[:ndim]]
            # two frames with different particle numbers, positions partly outside the cell
            frames = []
            for n in (14, 9):
                pos = (rng.random((n, ndim)) * 1.4 - 0.2) @ hmatrix
                frames.append(make_snapshot(pos, hmatrix))
            snaps = Snapshots(nsnapshots=len(frames), snapshots=frames)
            for ppp in masks:
                for N in (1, 4, 8):  # 8 = nparticle - 1 of the second frame
                    fn = os.path.join(tmpdir, "nn.dat")
                    Nnearests(snaps, N=N, ppp=np.array(ppp), fnfile=fn)
                    refs = [reference_nnearest(fr.positions, hmatrix, ppp, N) for fr in frames]

                    # (a) raw text format
                    with open(fn, "r", encoding="utf-8") as f:
                        lines = f.read().split("\n")
                    pointer = 0
                    for fr, ref in zip(frames, refs):
                        assert lines[pointer].split() == ["id", "cn", "neighborlist"], lines[pointer]
                        for i in range(fr.nparticle):
                            item = [int(x) for x in lines[pointer + 1 + i].split()]
                            assert item[0] == i + 1
                            assert item[1] == N
                            assert item[2:] == list(ref[i, 1:] + 1), (item, ref[i])
                            assert (i + 1) not in item[2:]
                        pointer += 1 + fr.nparticle
                    assert all(l.strip() == "" for l in lines[pointer:])

                    # (b) through the reader, consecutive frames from one open file
                    for Nmax in (200, N, 2):
                        with open(fn, "r", encoding="utf-8") as f:
                            for fr, ref in zip(frames, refs):
                                got = read_neighbors(f, fr.nparticle, Nmax)
                                keep = min(N, Nmax)
                                expect = ref[:, : keep + 1].copy()
                                expect[:, 0] = keep
                                assert got.dtype == np.int32
                                assert got.shape == expect.shape, (got.shape, expect.shape)
                                assert np.array_equal(got, expect)
                                nchecked += 1
    finally:
        shutil.rmtree(tmpdir)
    print(f"Nnearests demo OK ({nchecked} frame comparisons)")
    return 0


if __name__ == "__main__":
    sys.exit(main())
