"""
Demo for the refactoring gaussian-blurring-grid-product.

Focus: gaussian_blurring (grid built from enumerate(itertools.product(axes))): equal and unequal numbers of points per axis in 2D and 3D, list and array ngrids, x slowest, each point once.
The other two public functions of coarse_graining.py are exercised as well (same file).
Every result is compared with a plain-python reference implementation written below.
Run: PYTHONPATH=<worktree> /venv/bin/python demo.py   (exit status 0 = all checks passed)
"""
import os
import shutil
import sys
import tempfile

import numpy as np

from PyMatterSim.reader.reader_utils import SingleSnapshot, Snapshots
from PyMatterSim.utils.coarse_graining import (
    gaussian_blurring,
    spatial_average,
    time_average,
)
from PyMatterSim.utils.funcs import grid_gaussian

TOL = 1e-10
FAILS = []


def check(name, ok):
    if not ok:
        FAILS.append(name)
        print("FAIL", name)


def close(a, b, tol=TOL):
    a = np.asarray(a)
    b = np.asarray(b)
    if a.shape != b.shape:
        return False
    if a.size == 0:
        return True
    return bool(np.allclose(a, b, rtol=tol, atol=tol, equal_nan=True))


# ---------------------------------------------------------------- inputs
def make_snapshots(rng, ndim, nframes, nparticle, tilt=None, step=4, first=100):
    """synthetic trajectory, origin of the box not at zero, optional tilt"""
    frames = []
    for n in range(nframes):
        lengths = rng.uniform(6.0, 9.0, size=ndim) + 0.1 * n
        lo = rng.uniform(-3.0, 2.0, size=ndim)
        boxbounds = np.column_stack((lo, lo + lengths))
        hmatrix = np.diag(lengths)
        if tilt is not None:
            if ndim == 2:
                hmatrix[1, 0] = tilt[0]
            else:
                hmatrix[1, 0] = tilt[0]
                hmatrix[2, 0] = tilt[1]
                hmatrix[2, 1] = tilt[2]
        frac = rng.uniform(0.0, 1.0, size=(nparticle, ndim))
        positions = lo[np.newaxis, :] + frac @ hmatrix
        frames.append(
            SingleSnapshot(
                timestep=first + step * n,
                nparticle=nparticle,
                particle_type=np.ones(nparticle, dtype=int),
                positions=positions,
                boxlength=lengths,
                boxbounds=boxbounds,
                realbounds=boxbounds,
                hmatrix=hmatrix,
            )
        )
    return Snapshots(nsnapshots=nframes, snapshots=frames)


# ---------------------------------------------------------------- time_average
def ref_time_average(timesteps, prop, period, dt):
    interval = (timesteps[1] - timesteps[0]) * dt
    w = int(period / interval)
    nres = len(timesteps) - w
    out = np.zeros((nres, prop.shape[1]), dtype=np.complex128)
    mid = []
    for n in range(nres):
        acc = np.zeros(prop.shape[1], dtype=np.complex128)
        for m in range(n, n + w):
            acc = acc + prop[m]
        out[n] = acc / w
        mid.append(n + w // 2)
    return out, mid, w


def demo_time_average(rng):
    nframes, nparticle = 9, 7
    snaps = make_snapshots(rng, 2, nframes, nparticle, step=4)
    timesteps = [s.timestep for s in snaps.snapshots]
    dt = 0.5  # interval = 2.0 exactly
    real_prop = rng.normal(size=(nframes, nparticle))
    cplx_prop = rng.normal(size=(nframes, nparticle)) + 1j * rng.normal(size=(nframes, nparticle))
    #            w=1  w=2  w=3 (exact multiple)  w=3 (floor)  w=4  w=8  w=9 (empty result)
    for period in (2.0, 4.0, 6.0, 7.9, 8.0, 16.0, 18.0):
        for prop in (real_prop, cplx_prop):
            res, mid = time_average(snaps, prop, time_period=period, dt=dt)
            eres, emid, w = ref_time_average(timesteps, prop, period, dt)
            tag = f"time_average period={period} w={w} complex={np.iscomplexobj(prop)}"
            check(tag + " shape", res.shape == (nframes - w, nparticle))
            check(tag + " dtype", res.dtype == np.complex128)
            check(tag + " values", close(res, eres))
            check(tag + " middle", list(np.asarray(mid)) == emid and np.asarray(mid).shape == (nframes - w,))
    # the input must not be modified
    keep = cplx_prop.copy()
    time_average(snaps, cplx_prop, time_period=6.0, dt=dt)
    check("time_average input untouched", np.array_equal(keep, cplx_prop))


# ---------------------------------------------------------------- spatial_average
def write_neighbors(path, frames_lists, orders):
    """frames_lists[n][i] = list of 0-based neighbours; orders[n] = line order"""
    with open(path, "w", encoding="utf-8") as f:
        for lists, order in zip(frames_lists, orders):
            f.write("id     cn     neighborlist\n")
            for i in order:
                f.write("%d %d " % (i + 1, len(lists[i])))
                f.write(" ".join(str(j + 1) for j in lists[i]))
                f.write("\n")


def ref_spatial_average(prop, frames_lists, nmax):
    out = np.zeros(prop.shape, dtype=prop.dtype)
    for n, lists in enumerate(frames_lists):
        for i, neigh in enumerate(lists):
            neigh = neigh[:nmax]
            total = prop[n, i].copy() if prop.ndim > 2 else prop[n, i]
            for j in neigh:
                total = total + prop[n, j]
            out[n, i] = total / (1 + len(neigh))
    return out


def demo_spatial_average(rng, tmpdir):
    nframes, nparticle = 3, 11
    frames_lists, orders = [], []
    for n in range(nframes):
        lists = []
        for i in range(nparticle):
            cn = int(rng.integers(0, 7))
            if i == 2:
                cn = 0  # an isolated particle
            if i == 5:
                cn = 9  # the largest coordination number
            others = [j for j in range(nparticle) if j != i]
            lists.append([int(j) for j in rng.permutation(others)[:cn]])
        frames_lists.append(lists)
        orders.append([int(i) for i in rng.permutation(nparticle)] if n != 0 else list(range(nparticle)))
    nfile = os.path.join(tmpdir, "neighbors.dat")
    write_neighbors(nfile, frames_lists, orders)

    props = {
        "scalar": rng.normal(size=(nframes, nparticle)),
        "vector": rng.normal(size=(nframes, nparticle, 3)),
        "tensor": rng.normal(size=(nframes, nparticle, 2, 2)),
        "complex vector": rng.normal(size=(nframes, nparticle, 5)) + 1j * rng.normal(size=(nframes, nparticle, 5)),
    }
    for name, prop in props.items():
        for nmax in (30, 9, 4):
            keep = prop.copy()
            out = spatial_average(prop, nfile, Nmax=nmax)
            exp = ref_spatial_average(prop, frames_lists, nmax)
            tag = f"spatial_average {name} Nmax={nmax}"
            check(tag + " shape/dtype", out.shape == prop.shape and out.dtype == prop.dtype)
            check(tag + " values", close(out, exp))
            check(tag + " input untouched", np.array_equal(keep, prop))
            check(tag + " fresh array", not np.shares_memory(out, prop))
    # saved file
    ofile = os.path.join(tmpdir, "cg.npy")
    out = spatial_average(props["vector"], nfile, Nmax=30, outputfile=ofile)
    check("spatial_average saved file", np.array_equal(np.load(ofile), out))
    # one frame only, of a longer neighbour file
    out = spatial_average(props["scalar"][:1], nfile)
    check("spatial_average single frame", close(out, ref_spatial_average(props["scalar"][:1], frames_lists[:1], 30)))


# ---------------------------------------------------------------- gaussian_blurring
def ref_grid(boxbounds, ngrids):
    axes = [np.linspace(boxbounds[d, 0], boxbounds[d, 1], int(ngrids[d])) for d in range(len(ngrids))]
    mesh = np.meshgrid(*axes, indexing="ij")  # first axis slowest
    return np.stack([m.ravel() for m in mesh], axis=1)


def ref_gaussian_blurring(snaps, cond, ngrids, sigma, ppp, cut):
    ndim = len(ngrids)
    npts = int(np.prod(ngrids))
    gpos = np.zeros((snaps.nsnapshots, npts, ndim))
    gval = np.zeros((cond.shape[0], npts) + cond.shape[2:])
    for n, snap in enumerate(snaps.snapshots):
        gpos[n] = ref_grid(snap.boxbounds, ngrids)
        hinv = np.linalg.inv(snap.hmatrix)
        for g in range(npts):
            total = np.zeros(cond.shape[2:])
            for p in range(snap.nparticle):
                d = gpos[n, g] - snap.positions[p]
                s = d @ hinv
                s = s - np.rint(s) * np.asarray(ppp)[:ndim]
                d = s @ snap.hmatrix
                r = float(np.sqrt((d * d).sum()))
                if r < cut:
                    weight = np.exp(-r * r / (2.0 * sigma * sigma)) / np.sqrt(2.0 * np.pi * sigma * sigma)
                    total = total + weight * cond[n, p]
            gval[n, g] = total
    return gpos, gval


def demo_gaussian_blurring(rng, tmpdir):
    cases = [
        # ndim, nframes, N, tilt, ngrids, sigma, ppp, cut
        (2, 2, 13, None, [5, 2], 1.3, np.array([1, 1]), 2.5),
        (2, 2, 12, (-1.7,), np.array([4, 7]), 0.8, np.array([1, 1, 1]), 1.1),
        (2, 1, 9, (1.2,), np.array([17, 19]), 2.0, np.array([1, 0]), 6.0),  # 323 grid points
        (3, 2, 10, None, [3, 3, 3], 1.0, np.array([1, 1, 1]), 2.0),
        (3, 1, 8, (-1.1, 0.7, -0.9), np.array([3, 4, 2]), 1.5, np.array([1, 1, 0]), 3.0),
        (3, 1, 6, (0.6, -0.4, 0.8), np.array([7, 6, 7]), 0.7, np.array([1, 1, 1]), 0.9),  # 294 grid points
        (2, 1, 5, None, [1, 1], 1.0, np.array([1, 1]), 3.0),
        (2, 1, 4, (-0.9,), [16, 16], 1.1, np.array([1, 1]), 2.2),  # 256 grid points
        (3, 1, 3, None, [8, 8, 8], 1.1, np.array([1, 1, 1]), 2.2),  # 512 grid points
    ]
    for num, (ndim, nframes, npart, tilt, ngrids, sigma, ppp, cut) in enumerate(cases):
        snaps = make_snapshots(rng, ndim, nframes, npart, tilt=tilt)
        conds = {
            "scalar": rng.normal(size=(nframes, npart)),
            "vector": rng.normal(size=(nframes, npart, ndim)),
            "tensor": rng.normal(size=(nframes, npart, ndim, 2)),
        }
        if num in (2, 5, 7, 8):
            conds.pop("tensor")  # keep the pure-python reference quick
        for name, cond in conds.items():
            keep = cond.copy()
            gpos, gval = gaussian_blurring(snaps, cond, ngrids, sigma, ppp, cut)
            epos, eval_ = ref_gaussian_blurring(snaps, cond, ngrids, sigma, ppp, cut)
            tag = f"gaussian_blurring case {num} {name}"
            check(tag + " grid", close(gpos, epos, 1e-13))
            check(tag + " values", close(gval, eval_))
            check(tag + " input untouched", np.array_equal(keep, cond))
            # every grid point exactly once
            uniq = np.unique(np.round(gpos[0], 9), axis=0)
            check(tag + " unique grid points", uniq.shape[0] == int(np.prod(ngrids)))
    # empty selections: cutoff shorter than the distance to any particle
    snaps = make_snapshots(rng, 2, 1, 3)
    cond = rng.normal(size=(1, 3, 2))
    gpos, gval = gaussian_blurring(snaps, cond, [3, 2], 1.0, np.array([1, 1]), 1e-9)
    check("gaussian_blurring empty selections", gval.shape == (1, 6, 2) and not gval.any())
    # wrong rank
    try:
        gaussian_blurring(snaps, np.zeros(3), [3, 2])
        check("gaussian_blurring rank-1 condition rejected", False)
    except ValueError:
        pass
    # saved files, default ppp / sigma / cutoff
    snaps = make_snapshots(rng, 3, 2, 6)
    cond = rng.normal(size=(2, 6))
    stem = os.path.join(tmpdir, "blur")
    gpos, gval = gaussian_blurring(snaps, cond, [2, 3, 2], outputfile=stem)
    epos, eval_ = ref_gaussian_blurring(snaps, cond, [2, 3, 2], 2.0, np.array([1, 1, 1]), 6.0)
    check("gaussian_blurring defaults", close(gpos, epos, 1e-13) and close(gval, eval_))
    check("gaussian_blurring saved positions", np.array_equal(np.load(stem + "_positions.npy"), gpos))
    check("gaussian_blurring saved properties", np.array_equal(np.load(stem + "_properties.npy"), gval))
    # the weight function itself
    r = np.array([0.0, 0.5, 1.0, 3.0])
    for sigma in (0.5, 1.0, 2.0):
        check(
            f"grid_gaussian sigma={sigma}",
            close(grid_gaussian(r, sigma), np.exp(-r * r / (2 * sigma**2)) / np.sqrt(2 * np.pi * sigma**2), 1e-14),
        )
    check("grid_gaussian empty", grid_gaussian(np.array([]), 1.0).shape == (0,))


def main():
    import warnings

    rng = np.random.default_rng(20240916)
    tmpdir = tempfile.mkdtemp()
    try:
        with warnings.catch_warnings():
            warnings.simplefilter("ignore", RuntimeWarning)
            demo_time_average(rng)
        demo_spatial_average(rng, tmpdir)
        demo_gaussian_blurring(rng, tmpdir)
    finally:
        shutil.rmtree(tmpdir, ignore_errors=True)
    if FAILS:
        print(f"{len(FAILS)} check(s) failed")
        return 1
    print("all checks passed")
    return 0


if __name__ == "__main__":
    sys.exit(main())
