"""Demo for the branch-swap refactoring in PyMatterSim.static.boo.boo_3d
(qlm_Qlm, ql_Ql, w_W_cap).

Builds synthetic configurations + neighbour / weight files (unequal coordination numbers,
zero padded tables, file lines in shuffled id order, triclinic periodic cell, open cluster)
and compares q_l, Q_l, w_l, W_l, w-hat_l with a straightforward reference written here
(scipy spherical harmonics + sympy Wigner 3j) and with the literature values for fcc.
"""

import itertools
import os
import shutil
import sys
import tempfile

import numpy as np
from scipy.special import sph_harm_y
from sympy.physics.wigner import wigner_3j

from PyMatterSim.reader.reader_utils import SingleSnapshot, Snapshots
from PyMatterSim.static.boo import boo_3d


def check(cond, msg):
    if not cond:
        print("FAIL:", msg)
        sys.exit(1)


def snapshot_of(pos, hmatrix, step=0):
    hmatrix = np.asarray(hmatrix, dtype=float)
    boxlength = np.diag(hmatrix).copy()
    bounds = np.column_stack((np.zeros(3), boxlength))
    return SingleSnapshot(
        timestep=step,
        nparticle=pos.shape[0],
        particle_type=np.ones(pos.shape[0], dtype=np.int32),
        positions=pos,
        boxlength=boxlength,
        boxbounds=bounds,
        realbounds=bounds,
        hmatrix=hmatrix,
    )


def min_image(vec, hmatrix, ppp):
    ranges = [(-2, -1, 0, 1, 2) if ppp[k] else (0,) for k in range(3)]
    best = None
    for shift in itertools.product(*ranges):
        cand = vec + np.asarray(shift, dtype=float) @ hmatrix
        if best is None or np.linalg.norm(cand) < np.linalg.norm(best):
            best = cand
    return best


def write_tables(fname, wname, frames_neigh, frames_weight, rng):
    """neighbour file (1-based ids) and weight file, lines in shuffled order"""
    with open(fname, "w", encoding="utf-8") as fn, open(wname, "w", encoding="utf-8") as fw:
        for neigh, weight in zip(frames_neigh, frames_weight):
            fn.write("id     cn     neighborlist\n")
            fw.write("id     cn     weightlist\n")
            order = rng.permutation(len(neigh))
            for i in order:
                fn.write("%d %d " % (i + 1, len(neigh[i])) + " ".join(str(j + 1) for j in neigh[i]) + "\n")
                fw.write("%d %d " % (i + 1, len(neigh[i])) + " ".join("%.6f" % w for w in weight[i]) + "\n")


def reference(frames, frames_neigh, frames_weight, l, ppp, weighted):
    w3j = {}
    for m1 in range(-l, l + 1):
        for m2 in range(-l, l + 1):
            m3 = -m1 - m2
            if abs(m3) <= l:
                w3j[(m1, m2, m3)] = float(wigner_3j(l, l, l, m1, m2, m3))
    out = {"q": [], "Q": [], "w": [], "W": [], "wcap": [], "Wcap": []}
    ms = np.arange(-l, l + 1)
    for snap, neigh, weight in zip(frames, frames_neigh, frames_weight):
        npart = snap.nparticle
        qlm = np.zeros((npart, 2 * l + 1), dtype=complex)
        for i in range(npart):
            wsum = sum(float("%.6f" % w) for w in weight[i])
            for j, wij in zip(neigh[i], weight[i]):
                r = min_image(snap.positions[j] - snap.positions[i], snap.hmatrix, ppp)
                polar = np.arccos(r[2] / np.linalg.norm(r))
                azim = np.arctan2(r[1], r[0])
                ylm = sph_harm_y(l, ms, polar, azim)
                fac = float("%.6f" % wij) / wsum if weighted else 1.0 / len(neigh[i])
                qlm[i] += fac * ylm
        Qlm = np.zeros_like(qlm)
        for i in range(npart):
            Qlm[i] = (qlm[i] + qlm[neigh[i]].sum(axis=0)) / (1 + len(neigh[i]))
        for key_q, key_w, key_c, arr in (("q", "w", "wcap", qlm), ("Q", "W", "Wcap", Qlm)):
            norm2 = (np.abs(arr) ** 2).sum(axis=1)
            out[key_q].append(np.sqrt(4 * np.pi / (2 * l + 1) * norm2))
            wl = np.zeros(npart)
            for (m1, m2, m3), val in w3j.items():
                wl += val * np.real(arr[:, m1 + l] * arr[:, m2 + l] * arr[:, m3 + l])
            out[key_w].append(wl)
            out[key_c].append(wl / norm2 ** 1.5)
    return {k: np.array(v) for k, v in out.items()}


def run_case(name, frames, frames_neigh, frames_weight, l, ppp, tmp, rng):
    snaps = Snapshots(nsnapshots=len(frames), snapshots=frames)
    fname = os.path.join(tmp, name + ".neighbor.dat")
    wname = os.path.join(tmp, name + ".weight.dat")
    write_tables(fname, wname, frames_neigh, frames_weight, rng)
    for weighted in (False, True):
        boo = boo_3d(
            snaps, l=l, neighborfile=fname, weightsfile=wname if weighted else None, ppp=ppp, Nmax=30
        )
        ref = reference(frames, frames_neigh, frames_weight, l, ppp, weighted)
        tag = f"{name} l={l} weighted={weighted}"
        q = boo.ql_Ql(coarse_graining=False)
        Q = boo.ql_Ql(coarse_graining=True)
        w, wcap = boo.w_W_cap(coarse_graining=False)
        W, Wcap = boo.w_W_cap(coarse_graining=True)
        for got, key in ((q, "q"), (Q, "Q"), (w, "w"), (W, "W"), (wcap, "wcap"), (Wcap, "Wcap")):
            check(got.shape == ref[key].shape, f"{tag}: shape of {key}")
            check(np.allclose(got, ref[key], rtol=1e-7, atol=1e-10), f"{tag}: {key} differs from reference")
        # output files: npy always, text when the name ends with .dat
        out = os.path.join(tmp, name + ".ql.dat")
        got = boo.ql_Ql(coarse_graining=False, outputfile=out)
        check(np.array_equal(got, q), f"{tag}: ql with outputfile")
        check(np.allclose(np.loadtxt(out, ndmin=2), q, atol=6e-7), f"{tag}: ql text file")
        check(np.array_equal(np.load(out + ".npy"), q), f"{tag}: ql npy file")
        outw = os.path.join(tmp, name + ".w.npy")
        outc = os.path.join(tmp, name + ".wcap.txt")
        got_w, got_c = boo.w_W_cap(coarse_graining=True, outputw=outw, outputwcap=outc)
        check(np.array_equal(np.load(outw), W) and np.array_equal(got_w, W), f"{tag}: W npy file")
        check(np.allclose(np.loadtxt(outc, ndmin=2), Wcap, atol=6e-7), f"{tag}: Wcap text file")
        check(np.array_equal(got_c, Wcap), f"{tag}: Wcap with outputfile")
    return q, wcap


def main():
    rng = np.random.default_rng(77)
    tmp = tempfile.mkdtemp()
    try:
        # --- 1. fcc 13-atom cluster, open boundaries, plus a rotated + translated copy
        shell = np.array(
            [p for p in itertools.product((-1, 0, 1), repeat=3) if sum(abs(c) for c in p) == 2], dtype=float
        )
        cluster = np.vstack((np.zeros((1, 3)), shell)) * 0.8
        rot, _ = np.linalg.qr(rng.normal(size=(3, 3)))
        if np.linalg.det(rot) < 0:
            rot[:, 0] *= -1
        frames = [
            snapshot_of(cluster + 10.0, np.eye(3) * 50.0, 0),
            snapshot_of(cluster @ rot.T + np.array([3.0, 17.0, 8.0]), np.eye(3) * 50.0, 1),
        ]
        # centre has 12 neighbours, shell atoms only the centre (+ sometimes one more): unequal CN
        neigh = [list(range(1, 13))] + [[0] if k % 3 else [0, 1 + k % 12] for k in range(1, 13)]
        weights = [[1.0 + 0.0 * j for j in nb] for nb in neigh]
        for l in (4, 6):
            q, wcap = run_case("fcc", frames, [neigh, neigh], [weights, weights], l, np.array([0, 0, 0]), tmp, rng)
            want_q, want_w = {4: (0.190941, -0.159317), 6: (0.574524, -0.013161)}[l]
            for n in range(2):
                check(abs(q[n, 0] - want_q) < 2e-6, f"fcc q{l} frame {n}: {q[n, 0]}")
                check(abs(wcap[n, 0] - want_w) < 2e-6, f"fcc w{l}-hat frame {n}: {wcap[n, 0]}")

        # --- 2. random triclinic periodic configuration (negative tilt), two frames,
        #        random neighbour tables with CN between 1 and 9 and random weights
        hmat = np.array([[7.0, 0, 0], [-1.4, 6.5, 0], [0.9, -1.1, 6.0]])
        frames, fneigh, fweight = [], [], []
        npart = 40
        for n in range(2):
            pos = rng.random((npart, 3)) @ hmat
            pos[::5] += hmat[1]
            pos[2::6] -= hmat[2] + hmat[0]
            frames.append(snapshot_of(pos, hmat, n))
            tab, wtab = [], []
            for i in range(npart):
                # neighbours are drawn among the particles closer than 2.6 (< half the smallest
                # cell width), where the fractional-rounding image is the true minimum image
                others = [
                    j
                    for j in range(npart)
                    if j != i and np.linalg.norm(min_image(pos[j] - pos[i], hmat, (1, 1, 1))) < 2.6
                ]
                check(len(others) >= 1, "demo set-up: isolated particle")
                cn = min(int(rng.integers(1, 10)), len(others))
                tab.append([int(j) for j in rng.choice(others, size=cn, replace=False)])
                wtab.append([float(x) for x in rng.uniform(0.2, 3.0, size=cn)])
            fneigh.append(tab)
            fweight.append(wtab)
        for l in (2, 6):
            run_case("triclinic", frames, fneigh, fweight, l, np.array([1, 1, 1]), tmp, rng)
        print("OK")
    finally:
        shutil.rmtree(tmp, ignore_errors=True)


if __name__ == "__main__":
    main()
