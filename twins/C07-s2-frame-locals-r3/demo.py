"""Demo for the per-frame-locals refactoring of PyMatterSim.static.pairentropy.S2.particle_s2.

Synthetic binary configurations (3D orthogonal, 3D triclinic with negative tilt, 2D), types
in random order, particles shifted by whole cell vectors, non-symmetric sigma table; the
particle-level g(r) and S2 are compared with a plain reference implementation written here.
"""

import itertools
import os
import shutil
import sys
import tempfile

import numpy as np

from PyMatterSim.reader.reader_utils import SingleSnapshot, Snapshots
from PyMatterSim.static.pairentropy import S2


def check(cond, msg):
    if not cond:
        print("FAIL:", msg)
        sys.exit(1)


def make_snapshots(hmatrix, nparticle, nframes, rng, type_dtype):
    hmatrix = np.asarray(hmatrix, dtype=float)
    ndim = hmatrix.shape[0]
    ptype = (np.arange(nparticle) % 2 + 1).astype(type_dtype)
    rng.shuffle(ptype)
    frames = []
    for n in range(nframes):
        pos = rng.random((nparticle, ndim)) @ hmatrix
        pos[::4] += hmatrix[0]
        pos[1::9] -= hmatrix[-1]
        boxlength = np.diag(hmatrix).copy()
        bounds = np.column_stack((np.zeros(ndim), boxlength))
        frames.append(
            SingleSnapshot(
                timestep=n,
                nparticle=nparticle,
                particle_type=ptype,
                positions=pos,
                boxlength=boxlength,
                boxbounds=bounds,
                realbounds=bounds,
                hmatrix=hmatrix,
            )
        )
    return Snapshots(nsnapshots=nframes, snapshots=frames)


def reference_s2(snaps, sigmas, rdelta, ndelta):
    """plain python reference: gaussian-smeared particle g(r) and its S2 integral"""
    first = snaps.snapshots[0]
    ndim = first.positions.shape[1]
    rho = first.nparticle / np.prod(first.boxlength)
    bins = (np.arange(ndelta) + 0.5) * rdelta
    rmax = bins[-1]
    shell = 2 * np.pi * bins if ndim == 2 else 4 * np.pi * bins**2
    images = [np.asarray(s, dtype=float) for s in itertools.product((-1, 0, 1), repeat=ndim)]
    s2 = np.zeros((snaps.nsnapshots, first.nparticle))
    grs = np.zeros((snaps.nsnapshots, first.nparticle, ndelta))
    for n, snap in enumerate(snaps.snapshots):
        # wrap into the cell first so that the 3^d images are sufficient
        frac = snap.positions @ np.linalg.inv(snap.hmatrix)
        wrapped = (frac - np.floor(frac)) @ snap.hmatrix
        for i in range(snap.nparticle):
            gr = np.zeros(ndelta)
            for j in range(snap.nparticle):
                if j == i:
                    continue
                rij = min(np.linalg.norm(wrapped[j] - wrapped[i] + s @ snap.hmatrix) for s in images)
                if rij < rmax:
                    sig = sigmas[int(snap.particle_type[i]) - 1, int(snap.particle_type[j]) - 1]
                    gr += np.exp(-((bins - rij) ** 2) / (2 * sig**2)) / np.sqrt(2 * np.pi * sig**2)
            gr /= shell * rho
            integrand = (gr * np.log(gr) - gr + 1) * bins ** (ndim - 1)
            integral = np.sum(0.5 * (integrand[1:] + integrand[:-1]) * np.diff(bins))
            s2[n, i] = -(ndim - 1) * np.pi * rho * integral
            grs[n, i] = gr
    return s2, grs


def main():
    rng = np.random.default_rng(4242)
    tmp = tempfile.mkdtemp()
    cwd = os.getcwd()
    try:
        os.chdir(tmp)  # particle_s2(savegr=True) writes 'particle_gr.<outputfile>' in the cwd
        sig3 = np.array([[0.30, 0.35], [0.25, 0.40]])  # deliberately non-symmetric
        cases = [
            ("3d-orthogonal", np.diag([7.0, 7.5, 8.0]), [1, 1, 1], 60, np.int32, 0.05, 60),
            ("3d-triclinic", [[7.5, 0, 0], [-1.3, 7.0, 0], [0.8, -0.9, 7.2]], [1, 1, 1], 55, np.int64, 0.04, 70),
            ("2d-negative-tilt", [[9.0, 0], [-2.0, 8.0]], [1, 1], 48, np.int32, 0.05, 70),
        ]
        for name, hmat, ppp, npart, tdtype, rdelta, ndelta in cases:
            snaps = make_snapshots(hmat, npart, 2, rng, tdtype)
            want_s2, want_gr = reference_s2(snaps, sig3, rdelta, ndelta)
            check(np.isfinite(want_s2).all(), f"{name}: demo set-up gives non-finite S2")

            calc = S2(snaps, sigmas=sig3, ppp=np.array(ppp), rdelta=rdelta, ndelta=ndelta)
            got = calc.particle_s2()
            check(got.shape == want_s2.shape, f"{name}: shape")
            check(np.allclose(got, want_s2, rtol=1e-9, atol=1e-11), f"{name}: S2 differs from reference")
            check(np.array_equal(calc.s2_results, got), f"{name}: s2_results attribute")

            out = name + ".s2.npy"
            got2, gr2 = calc.particle_s2(savegr=True, outputfile=out)
            check(np.array_equal(got2, got), f"{name}: S2 with savegr")
            check(np.allclose(gr2, want_gr, rtol=1e-9, atol=1e-13), f"{name}: particle g(r) differs")
            check(np.array_equal(np.load(out), got), f"{name}: saved S2")
            check(np.array_equal(np.load("particle_gr." + out), gr2), f"{name}: saved particle g(r)")

            # relabelling particles permutes the per-particle output accordingly
            perm = rng.permutation(npart)
            frames = [
                SingleSnapshot(
                    timestep=s.timestep,
                    nparticle=s.nparticle,
                    particle_type=s.particle_type[perm],
                    positions=s.positions[perm],
                    boxlength=s.boxlength,
                    boxbounds=s.boxbounds,
                    realbounds=s.realbounds,
                    hmatrix=s.hmatrix,
                )
                for s in snaps.snapshots
            ]
            got_p = S2(
                Snapshots(nsnapshots=2, snapshots=frames), sigmas=sig3, ppp=np.array(ppp), rdelta=rdelta, ndelta=ndelta
            ).particle_s2()
            check(np.allclose(got_p, got[:, perm], rtol=1e-9, atol=1e-11), f"{name}: relabelling")
        print("OK")
    finally:
        os.chdir(cwd)
        shutil.rmtree(tmp, ignore_errors=True)


if __name__ == "__main__":
    main()
