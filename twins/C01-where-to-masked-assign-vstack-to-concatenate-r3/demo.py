"""
Demo for the refactoring `where-to-masked-assign-vstack-to-concatenate`.

Exercises
 * read_lammps, orthogonal cell, wrapped 'x' style: the two `np.where` wraps (now masked
   assignments on a fresh copy) with excursions of up to one box length on either side,
   points exactly on the lower / upper bound, negative box origins, 2D and 3D, frames
   without atoms; 'xu' and 'xs' files of the same cells must come back unwrapped;
 * read_lammps, triclinic cell with ndim = 2: the third "zlo zhi yz" box line that is
   appended to the bounds table (`np.vstack` became `np.concatenate`), tilts of either sign;
 * for completeness every other (ndim, style, cell) combination of the LAMMPS reader.
Expected values are the ground truth the synthetic files are generated from (positions are
written with repr(), so they round-trip exactly), or a plain reference implementation.
Run: PYTHONPATH=<worktree> /venv/bin/python demo.py
"""
import itertools
import logging
import os
import shutil
import sys
import tempfile

import numpy as np

logging.disable(logging.CRITICAL)

from PyMatterSim.reader.dump_reader import DumpReader  # noqa: E402
from PyMatterSim.reader.lammps_reader_helper import read_lammps_wrapper  # noqa: E402
from PyMatterSim.reader.reader_utils import DumpFileType  # noqa: E402

TOL = 1e-12
COORD_NAMES = {"x": ["x", "y", "z"], "xs": ["xs", "ys", "zs"], "xu": ["xu", "yu", "zu"]}


def make_cell(rng, ndim, triclinic, tilt_signs):
    """ground-truth cell: real lo / hi per axis, tilts (xy, xz, yz)"""
    lo = rng.uniform(-7.0, 5.0, size=3)
    length = rng.uniform(3.0, 12.0, size=3)
    if ndim == 2:
        lo[2], length[2] = -0.5, 1.0
    hi = lo + length
    tilts = np.zeros(3)
    if triclinic:
        sxy, sxz, syz = tilt_signs
        tilts[0] = sxy * rng.uniform(0.2, 0.45) * length[0]
        if ndim == 3:
            tilts[1] = sxz * rng.uniform(0.2, 0.45) * length[0]
            tilts[2] = syz * rng.uniform(0.2, 0.45) * length[1]
    return lo, hi, tilts


def make_frame(rng, ndim, style, triclinic, tilt_signs, natoms, timestep):
    """returns (text of the frame, dict of expected values)"""
    lo, hi, (xy, xz, yz) = make_cell(rng, ndim, triclinic, tilt_signs)
    length = hi - lo
    types = rng.integers(1, 4, size=natoms)
    scaled = rng.uniform(0.0, 1.0, size=(natoms, 3))
    # rows a, b, c of the LAMMPS cell
    hfull = np.array([[length[0], 0.0, 0.0], [xy, length[1], 0.0], [xz, yz, length[2]]])

    if triclinic:
        cart = lo + scaled[:, :1] * hfull[0] + scaled[:, 1:2] * hfull[1]
        if ndim == 3:
            cart = cart + scaled[:, 2:3] * hfull[2]
    else:
        cart = lo + scaled * length
    cart = cart[:, :ndim]

    if style == "xs":
        written = scaled[:, :ndim]
        expected_pos = cart
    elif style == "xu":
        # unwrapped: arbitrary excursions, returned verbatim
        written = cart + rng.integers(-3, 4, size=(natoms, ndim)) * length[:ndim]
        expected_pos = written
    else:
        if triclinic:
            written = cart  # returned verbatim for triclinic cells
            expected_pos = written
        else:
            # excursions of at most one box length on either side
            shift = rng.integers(-1, 2, size=(natoms, ndim))
            written = cart + shift * length[:ndim]
            expected_pos = None  # computed below from the *parsed* numbers

    # ---- header ----
    lines = ["ITEM: TIMESTEP", str(timestep), "ITEM: NUMBER OF ATOMS", str(natoms)]
    if triclinic:
        xlo_b = lo[0] + min(0.0, xy, xz, xy + xz)
        xhi_b = hi[0] + max(0.0, xy, xz, xy + xz)
        ylo_b = lo[1] + min(0.0, yz)
        yhi_b = hi[1] + max(0.0, yz)
        bounds = np.array([[xlo_b, xhi_b, xy], [ylo_b, yhi_b, xz], [lo[2], hi[2], yz]])
        lines.append("ITEM: BOX BOUNDS xy xz yz pp pp pp")
        for row in bounds:
            lines.append(" ".join(repr(float(v)) for v in row))
    else:
        bounds = np.column_stack((lo, hi))
        lines.append("ITEM: BOX BOUNDS pp pp pp")
        for row in bounds:
            lines.append(" ".join(repr(float(v)) for v in row))
    names = COORD_NAMES[style][:ndim]
    lines.append("ITEM: ATOMS id type " + " ".join(names) + " vx q")

    # ---- atom lines in a random order, with two trailing columns ----
    order = rng.permutation(natoms)
    extra = rng.normal(size=(natoms, 2))
    for i in order:
        coords = " ".join(repr(float(v)) for v in written[i])
        lines.append(f"{i + 1} {types[i]} {coords} {float(extra[i, 0])!r} {float(extra[i, 1])!r}")

    if expected_pos is None:
        # straightforward reference wrap, element by element
        expected_pos = np.array(written, dtype=float)
        for i in range(natoms):
            for d in range(ndim):
                p = expected_pos[i, d]
                if p < lo[d]:
                    p = p + length[d]
                if p > hi[d]:
                    p = p - length[d]
                expected_pos[i, d] = p
        assert np.all(np.abs(expected_pos - written) <= length[:ndim] * (1 + 1e-12))

    expected = {
        "timestep": timestep,
        "nparticle": natoms,
        "particle_type": types,
        "positions": expected_pos,
        "boxlength": length[:ndim],
        "boxbounds": bounds[:ndim, :2],
        "realbounds": np.column_stack((lo, hi))[:ndim] if triclinic else None,
        "hmatrix": hfull[:ndim, :ndim] if triclinic else np.diag(length[:ndim]),
    }
    return "\n".join(lines) + "\n", expected


def close(a, b):
    a = np.asarray(a, dtype=float)
    b = np.asarray(b, dtype=float)
    if a.shape != b.shape:
        return False
    scale = max(1.0, float(np.max(np.abs(b))) if b.size else 1.0)
    return bool(np.all(np.abs(a - b) <= TOL * scale))


def check_snapshot(tag, snap, exp):
    assert snap.timestep == exp["timestep"], (tag, "timestep")
    assert snap.nparticle == exp["nparticle"], (tag, "nparticle")
    assert snap.particle_type.shape == exp["particle_type"].shape, (tag, "type shape")
    assert np.array_equal(snap.particle_type, exp["particle_type"]), (tag, "types")
    assert close(snap.positions, exp["positions"]), (tag, "positions")
    assert close(snap.boxlength, exp["boxlength"]), (tag, "boxlength")
    assert close(snap.boxbounds, exp["boxbounds"]), (tag, "boxbounds")
    assert close(snap.hmatrix, exp["hmatrix"]), (tag, "hmatrix")
    if exp["realbounds"] is None:
        assert snap.realbounds is None, (tag, "realbounds must be None")
    else:
        assert close(snap.realbounds, exp["realbounds"]), (tag, "realbounds")


def run_case(tmpdir, rng, ndim, style, triclinic, tilt_signs, nframes, natoms, via_class):
    tag = f"ndim={ndim} style={style} tri={triclinic} tilts={tilt_signs} frames={nframes} n={natoms}"
    text, expected = "", []
    for n in range(nframes):
        frame_text, exp = make_frame(rng, ndim, style, triclinic, tilt_signs,
                                     natoms + (n % 2), 1000 * n + 7)
        text += frame_text
        expected.append(exp)
    path = os.path.join(tmpdir, "case.dump")
    with open(path, "w", encoding="utf-8") as handle:
        handle.write(text)

    if via_class:
        reader = DumpReader(path, ndim=ndim, filetype=DumpFileType.LAMMPS)
        reader.read_onefile()
        snapshots = reader.snapshots
    else:
        snapshots = read_lammps_wrapper(path, ndim)

    assert snapshots.nsnapshots == nframes, (tag, "nsnapshots", snapshots.nsnapshots)
    assert len(snapshots.snapshots) == nframes, (tag, "len(snapshots)")
    for n, (snap, exp) in enumerate(zip(snapshots.snapshots, expected)):
        check_snapshot(f"{tag} frame={n}", snap, exp)
    return snapshots


def all_cases():
    sign_sets_3d = list(itertools.product((1, -1), repeat=3))
    for ndim in (2, 3):
        for style in ("x", "xs", "xu"):
            yield ndim, style, False, (0, 0, 0)
            signs = sign_sets_3d if ndim == 3 else [(1, 0, 0), (-1, 0, 0)]
            for tilt_signs in signs:
                yield ndim, style, True, tilt_signs


def hand_made_boundary_case(tmpdir):
    """numbers that are exact in binary: the expected wrap is known by hand"""
    text = "\n".join([
        "ITEM: TIMESTEP", "5", "ITEM: NUMBER OF ATOMS", "6",
        "ITEM: BOX BOUNDS pp pp pp", "0.0 8.0", "-4.0 4.0", "-0.5 0.5",
        "ITEM: ATOMS id type x y",
        "3 2 -2.5 4.0",     # below in x -> +8 ; y on the upper bound: unchanged
        "1 1 0.0 -4.0",     # exactly on the lower bounds: unchanged
        "6 1 8.0 4.5",      # x on the upper bound: unchanged ; y above -> -8
        "2 3 10.25 -4.25",  # x above -> -8 ; y below -> +8
        "5 2 -8.0 12.0",    # a whole box length outside: ends on the bound
        "4 1 3.0 1.0",      # inside: unchanged
    ]) + "\n"
    path = os.path.join(tmpdir, "hand.dump")
    with open(path, "w", encoding="utf-8") as handle:
        handle.write(text)
    snap = read_lammps_wrapper(path, 2).snapshots[0]
    expected = np.array([[0.0, -4.0], [2.25, 3.75], [5.5, 4.0], [3.0, 1.0], [0.0, 4.0], [8.0, -3.5]])
    assert np.array_equal(snap.positions, expected), snap.positions
    assert snap.positions.dtype == np.float64 and snap.positions.shape == (6, 2)
    assert np.array_equal(snap.particle_type, [1, 3, 2, 1, 2, 1])
    assert np.array_equal(snap.boxlength, [8.0, 8.0])
    assert np.array_equal(snap.boxbounds, [[0.0, 8.0], [-4.0, 4.0]])
    assert np.array_equal(snap.hmatrix, [[8.0, 0.0], [0.0, 8.0]])

    # 2D triclinic file, negative tilt, exact numbers: bounds table gets its third row appended
    text = "\n".join([
        "ITEM: TIMESTEP", "9", "ITEM: NUMBER OF ATOMS", "2",
        "ITEM: BOX BOUNDS xy xz yz pp pp pp", "-3.0 8.0 -2.0", "1.0 5.0 0.0", "-0.5 0.5 0.0",
        "ITEM: ATOMS id type xs ys",
        "2 1 0.5 0.5",
        "1 2 0.25 1.0",
    ]) + "\n"
    with open(path, "w", encoding="utf-8") as handle:
        handle.write(text)
    snap = read_lammps_wrapper(path, 2).snapshots[0]
    # real cell: xlo = -3 - (-2) = -1, xhi = 8 - 0 = 8 ; a = (9, 0), b = (-2, 4)
    assert np.array_equal(snap.realbounds, [[-1.0, 8.0], [1.0, 5.0]])
    assert np.array_equal(snap.boxbounds, [[-3.0, 8.0], [1.0, 5.0]])
    assert np.array_equal(snap.boxlength, [9.0, 4.0])
    assert np.array_equal(snap.hmatrix, [[9.0, 0.0], [-2.0, 4.0]])
    assert np.array_equal(snap.positions, [[-1.0 + 0.25 * 9.0 - 2.0, 5.0], [-1.0 + 4.5 - 1.0, 3.0]])
    assert np.array_equal(snap.particle_type, [2, 1])


def main():
    rng = np.random.default_rng(31415)
    tmpdir = tempfile.mkdtemp()
    ncases = 0
    try:
        hand_made_boundary_case(tmpdir)
        # focus 1: orthogonal cells, all three styles, many atoms so that every wrap case occurs
        for ndim in (2, 3):
            for style in ("x", "xu", "xs"):
                for nframes, natoms in ((1, 0), (1, 1), (2, 200), (3, 37)):
                    run_case(tmpdir, rng, ndim, style, False, (0, 0, 0), nframes, natoms,
                             via_class=bool(natoms % 2))
                    ncases += 1
        # focus 2: 2D triclinic, both tilt signs, all styles
        for style in ("x", "xu", "xs"):
            for sign in (1, -1):
                for nframes in (1, 3):
                    run_case(tmpdir, rng, 2, style, True, (sign, 0, 0), nframes, 15, via_class=(sign > 0))
                    ncases += 1
        # everything else once
        for ndim, style, triclinic, tilt_signs in all_cases():
            run_case(tmpdir, rng, ndim, style, triclinic, tilt_signs, 2, 8, via_class=False)
            ncases += 1
    finally:
        shutil.rmtree(tmpdir)
    print(f"OK: {ncases + 2} synthetic dump files read back exactly (wrapped / unwrapped / scaled)")
    return 0


if __name__ == "__main__":
    sys.exit(main())
