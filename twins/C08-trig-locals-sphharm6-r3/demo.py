"""
Demo for the refactoring 'trig-locals-sphharm6'
(sin(theta) and cos(theta) computed once per call in SphHarm6 and reused in the 13 closed forms).

SphHarm6(theta, phi) must equal the orthonormal Condon-Shortley Y_6m(polar theta, azimuth phi),
m = -6..6. Checked against an independent reference (associated Legendre recurrence, written
below) on a grid covering both poles, the equator, azimuths of both signs and random angles,
directly and through the dispatcher sph_harm_l(6, ...); plus the sum rule and the m <-> -m symmetry.
"""
import math
import sys

import numpy as np

from PyMatterSim.utils import spherical_harmonics as sh


def legendre_plm(l, m, x, somx2):
    """associated Legendre P_l^m(x), m >= 0, including Condon-Shortley phase;
    somx2 = sqrt(1 - x^2) is passed in (sin(theta)) so that it stays accurate next to the poles"""
    pmm = 1.0
    if m > 0:
        fact = 1.0
        for _ in range(m):
            pmm *= -fact * somx2
            fact += 2.0
    if l == m:
        return pmm
    pmmp1 = x * (2 * m + 1) * pmm
    if l == m + 1:
        return pmmp1
    pll = 0.0
    for ll in range(m + 2, l + 1):
        pll = (x * (2 * ll - 1) * pmmp1 - (ll + m - 1) * pmm) / (ll - m)
        pmm, pmmp1 = pmmp1, pll
    return pll


def ylm_reference(l, theta, phi):
    """orthonormal Y_lm(polar theta, azimuth phi), m = -l..l"""
    out = np.zeros(2 * l + 1, dtype=complex)
    for m in range(0, l + 1):
        norm = math.sqrt((2 * l + 1) / (4 * math.pi) * math.factorial(l - m) / math.factorial(l + m))
        val = norm * legendre_plm(l, m, math.cos(theta), math.sin(theta)) * complex(math.cos(m * phi), math.sin(m * phi))
        out[l + m] = val
        out[l - m] = (-1) ** m * val.conjugate()
    return out


def main():
    rng = np.random.default_rng(66)
    thetas = [0.0, math.pi, math.pi / 2, 1e-8, math.pi - 1e-8, math.acos(1 / math.sqrt(3)), np.float64(2.2)]
    phis = [0.0, math.pi, -math.pi / 2, -3.0, 3.0, np.float64(0.77)]
    angles = [(t, p) for t in thetas for p in phis]
    angles += [(float(t), float(p)) for t, p in zip(rng.uniform(0, np.pi, 60), rng.uniform(-np.pi, np.pi, 60))]
    l = 6
    nfail = 0
    for theta, phi in angles:
        got = sh.SphHarm6(theta, phi)
        ref = ylm_reference(l, theta, phi)
        if got.shape != (13,) or got.dtype != np.complex128:
            print("SHAPE/DTYPE %r %r" % (got.shape, got.dtype))
            nfail += 1
            continue
        if not np.allclose(got, ref, rtol=1e-10, atol=1e-11):
            print("MISMATCH theta=%r phi=%r max|diff|=%g" % (theta, phi, np.abs(got - ref).max()))
            nfail += 1
        if abs((np.abs(got) ** 2).sum() - 13 / (4 * np.pi)) > 1e-10:
            print("SUM RULE theta=%r" % theta)
            nfail += 1
        signs = (-1.0) ** np.arange(-l, l + 1)
        if not np.allclose(got[::-1], signs * got.conj(), atol=1e-12):
            print("SYMMETRY theta=%r phi=%r" % (theta, phi))
            nfail += 1
        if sh.sph_harm_l(6, theta, phi).tobytes() != got.tobytes():
            print("DISPATCH theta=%r phi=%r" % (theta, phi))
            nfail += 1
        # cross-check with the delegated branch evaluated at the same degree
        if not np.allclose(sh.SphHarm_above(6, theta, phi), got, rtol=1e-10, atol=1e-11):
            print("DELEGATED theta=%r phi=%r" % (theta, phi))
            nfail += 1
    # array-valued polar angle (broadcasts through the closed forms): column k is the scalar result
    tarr = rng.uniform(0, np.pi, 4)
    block = sh.SphHarm6(tarr, 0.3)
    for k, t in enumerate(tarr):
        if block.shape != (13, 4) or not np.allclose(block[:, k], ylm_reference(6, float(t), 0.3), rtol=1e-10, atol=1e-11):
            print("ARRAY THETA column %d" % k)
            nfail += 1
    if nfail:
        print("FAILED: %d problems" % nfail)
        return 1
    print("OK trig-locals-sphharm6: %d angle pairs" % len(angles))
    return 0


if __name__ == "__main__":
    sys.exit(main())
