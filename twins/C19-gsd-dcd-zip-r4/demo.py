"""Demo for the refactoring 'gsd-dcd-zip'.

Exercises PyMatterSim.reader.gsd_reader_helper.read_gsd and read_gsd_dcd with
duck-typed HOOMD frame objects (no gsd / mdtraj needed) and a stand-in for
mdtraj's DCDTrajectoryFile: 2D and 3D, one and several frames, N = 1 and
N > 1, type ids starting at zero, DCD positions attached frame by frame; the
consistency guards (wrong dimension, different number of frames, different
particle number) must still return None.  Exits 0 on success.
"""
import logging
import sys
from types import SimpleNamespace

import numpy as np

from PyMatterSim.reader.gsd_reader_helper import read_gsd, read_gsd_dcd

logging.disable(logging.CRITICAL)


def make_frames(rng, ndim, nframes, npart):
    frames = []
    for k in range(nframes):
        box = np.array([rng.uniform(5, 9), rng.uniform(5, 9),
                        rng.uniform(5, 9) if ndim == 3 else 0.0, 0.0, 0.0, 0.0])
        pos = rng.uniform(-0.5, 0.5, size=(npart, 3)) * box[:3]
        if ndim == 2:
            pos[:, 2] = 0.0
        frames.append(SimpleNamespace(
            configuration=SimpleNamespace(box=box, dimensions=ndim, step=1000 * k + 7),
            particles=SimpleNamespace(N=npart, position=pos.astype(np.float32),
                                      typeid=rng.integers(0, 3, size=npart).astype(np.uint32)),
        ))
    return frames


class FakeDCD:
    def __init__(self, xyz):
        self.xyz = xyz
        self.nread = 0

    def read(self):
        self.nread += 1
        n = self.xyz.shape[0]
        return self.xyz, np.ones((n, 3)), np.full((n, 3), 90.0)


def check_common(snap, frame, ndim):
    assert snap.timestep == frame.configuration.step
    assert snap.nparticle == frame.particles.N
    assert np.array_equal(snap.particle_type, frame.particles.typeid.astype(np.int64) + 1)
    assert snap.particle_type.min() >= 1
    assert np.array_equal(snap.boxlength, frame.configuration.box[:ndim])
    assert np.array_equal(snap.hmatrix, np.diag(frame.configuration.box[:ndim]))
    wrapped = frame.particles.position[:, :ndim]
    expect_bounds = np.array([[wrapped[:, d].min(), wrapped[:, d].max()] for d in range(ndim)])
    assert snap.boxbounds.shape == (ndim, 2)
    assert np.array_equal(snap.boxbounds, expect_bounds)
    assert snap.realbounds is None


def main():
    rng = np.random.default_rng(404)
    for ndim in (2, 3):
        for nframes, npart in ((1, 1), (1, 6), (4, 5), (7, 1), (3, 20)):
            frames = make_frames(rng, ndim, nframes, npart)

            # ---- GSD only
            snaps = read_gsd(frames, ndim)
            assert snaps.nsnapshots == nframes == len(snaps.snapshots)
            for snap, frame in zip(snaps.snapshots, frames):
                check_common(snap, frame, ndim)
                assert snap.positions.shape == (npart, ndim)
                assert np.array_equal(snap.positions, frame.particles.position[:, :ndim])
            assert read_gsd(frames, 5 - ndim) is None

            # ---- GSD + DCD: unwrapped positions, different in every frame
            xyz = rng.normal(scale=30.0, size=(nframes, npart, 3)).astype(np.float32)
            dcd = FakeDCD(xyz)
            snaps = read_gsd_dcd(frames, dcd, ndim)
            assert dcd.nread == 1
            assert snaps.nsnapshots == nframes == len(snaps.snapshots)
            for k, (snap, frame) in enumerate(zip(snaps.snapshots, frames)):
                check_common(snap, frame, ndim)
                assert snap.positions.shape == (npart, ndim)
                assert np.array_equal(snap.positions, xyz[k, :, :ndim])
            # the duck-typed input frames are left alone
            assert all(f.particles.position.shape == (npart, 3) for f in frames)

            # ---- guards
            assert read_gsd_dcd(frames, FakeDCD(xyz), 5 - ndim) is None
            more = np.concatenate((xyz, xyz[:1]), axis=0)
            assert read_gsd_dcd(frames, FakeDCD(more), ndim) is None
            if nframes > 1:
                assert read_gsd_dcd(frames, FakeDCD(xyz[:-1]), ndim) is None
            wider = np.concatenate((xyz, xyz[:, :1]), axis=1)
            assert read_gsd_dcd(frames, FakeDCD(wider), ndim) is None
    print("gsd-dcd-zip demo: OK")
    return 0


if __name__ == "__main__":
    sys.exit(main())
