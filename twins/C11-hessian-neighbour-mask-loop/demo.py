"""
Demo for the refactoring `hessian-neighbour-mask-loop` (structural: in
HessianMatrix.diagonalize_hessian the per-particle type indices are computed once
before the loop, and the inner loop over all j with a scalar test is replaced by
a whole-array cutoff mask followed by a loop over the selected neighbours only).

Exercises, through public functions only, HessianMatrix.diagonalize_hessian on
  * jittered lattices in 2D and 3D, orthogonal and triclinic (positive and negative
    tilt) cells, unwrapped coordinates, three potentials, equal and unequal masses,
    shift on/off, several periodicity masks,
  * edge cases of the neighbour selection: a single particle, two particles beyond
    every cutoff, isolated particles next to a dense cluster in an open box (zero
    to many neighbours), particle types stored as floats, more than 100 particles,
against an independently coded mass-weighted Hessian (one pass over unordered
pairs, outer products); symmetry, translation modes, omega = sqrt(eigenvalue) and
participation ratios are checked as well.
Exits 0 on the original and on the refactored tree.
"""
import os
import shutil
import sys
import tempfile

import numpy as np
import pandas as pd

from PyMatterSim.reader.reader_utils import SingleSnapshot
from PyMatterSim.static.hessians import (HessianMatrix, InteractionParams,
                                         ModelName, PairInteractions)
from PyMatterSim.static.vector import participation_ratio


# ---------------------------------------------------------------- reference
def ref_derivs(model, r, eps, sig, rc, shift, n=0.0, A=0.0, alpha=0.0):
    """u'(r), u'(rc) (0 when unshifted / harmonic), u''(r) of the documented pair energy"""
    def d1(x):
        if model == "lj":      # u = 4 eps [(s/x)^12 - (s/x)^6]
            return 4.0 * eps * (-12.0 * sig**12 / x**13 + 6.0 * sig**6 / x**7)
        if model == "ipl":     # u = A eps (s/x)^n
            return -A * eps * n * sig**n / x**(n + 1)
        # harmonic / hertz: u = eps/alpha (1 - x/s)^alpha
        return -eps / sig * (1.0 - x / sig)**(alpha - 1.0)

    def d2(x):
        if model == "lj":
            return 4.0 * eps * (156.0 * sig**12 / x**14 - 42.0 * sig**6 / x**8)
        if model == "ipl":
            return A * eps * n * (n + 1.0) * sig**n / x**(n + 2)
        return eps / sig**2 * (alpha - 1.0) * (1.0 - x / sig)**(alpha - 2.0)

    s1rc = d1(rc) if (shift and model != "hh") else 0.0
    return d1(r), s1rc, d2(r)


def ref_min_image(dR, h, ppp):
    frac = dR @ np.linalg.inv(h)
    frac = frac - np.rint(frac) * np.asarray(ppp)[None, :]
    return frac @ h


def ref_hessian(pos, types, h, ppp, masses, eps, sig, rc, model, shift, **kw):
    """mass-weighted hessian by outer products, one pass over unordered pairs"""
    npart, ndim = pos.shape
    H = np.zeros((npart * ndim, npart * ndim))
    eye = np.eye(ndim)
    for i in range(npart):
        for j in range(i + 1, npart):
            a, b = types[i] - 1, types[j] - 1
            rij = ref_min_image((pos[i] - pos[j])[None, :], h, ppp)[0]
            r = np.sqrt((rij * rij).sum())
            if r > rc[a, b]:
                continue
            s1, s1rc, s2 = ref_derivs(model, r, eps[a, b], sig[a, b], rc[a, b], shift, **kw)
            rr = np.outer(rij, rij)
            blk = s2 * rr / r**2 + (s1 - s1rc) * (eye / r - rr / r**3)
            mi, mj = masses[types[i]], masses[types[j]]
            si, sj = slice(i * ndim, (i + 1) * ndim), slice(j * ndim, (j + 1) * ndim)
            H[si, si] += blk / mi
            H[sj, sj] += blk / mj
            H[si, sj] -= blk / np.sqrt(mi * mj)
            H[sj, si] -= blk / np.sqrt(mi * mj)
    return H


def ref_pr(vec):
    npart = vec.shape[0]
    num = 0.0
    den = 0.0
    for row in vec:
        e2 = float(sum(float(c) * float(c) for c in row))
        num += e2
        den += e2 * e2
    return num * num / (npart * den)


# ---------------------------------------------------------------- inputs
def make_config(ndim, rng, tilt, ppp):
    """jittered lattice in a (possibly triclinic) periodic cell, binary mixture"""
    if ndim == 2:
        grid = (6, 5)
        h = np.array([[6.0, 0.0], [tilt, 5.0]])
    else:
        grid = (4, 3, 3)
        h = np.array([[4.0, 0.0, 0.0], [tilt, 3.0, 0.0], [-0.5 * tilt, 0.3 * tilt, 3.0]])
    axes = [np.arange(g) / g for g in grid]
    frac = np.stack(np.meshgrid(*axes, indexing="ij"), axis=-1).reshape(-1, ndim)
    pos = frac @ h + rng.uniform(-0.12, 0.12, size=frac.shape)
    pos = pos + 0.37                                             # arbitrary origin shift
    # unwrapped coordinates: move particles by whole cell vectors along periodic directions
    pos = pos + (rng.integers(-1, 2, size=frac.shape) * np.asarray(ppp)[None, :]) @ h
    npart = pos.shape[0]
    types = rng.permutation(np.where(np.arange(npart) % 3 == 0, 2, 1))
    lengths = np.diag(h).copy()
    bounds = np.column_stack((np.zeros(ndim), lengths))
    snap = SingleSnapshot(timestep=0, nparticle=npart, particle_type=types,
                          positions=pos, boxlength=lengths, boxbounds=bounds,
                          realbounds=bounds, hmatrix=h)
    return snap


SIG = np.array([[1.0, 1.1], [1.1, 1.2]])
EPS = np.array([[1.0, 1.5], [1.5, 0.5]])

CASES = [
    # ndim, tilt, model, params, rc, masses, shift, ppp
    (2, 1.3, "ipl", dict(n=10.0, A=1.3), 1.25 * SIG, {1: 1.0, 2: 1.0}, True, [1, 1]),
    (2, -1.3, "lj", dict(), 1.3 * SIG, {1: 1.0, 2: 2.5}, True, [1, 1]),
    (2, 0.0, "lj", dict(), 1.3 * SIG, {1: 0.7, 2: 2.5}, False, [1, 0]),
    (2, 0.8, "hh", dict(alpha=2.0), 1.0 * SIG + 0.15, {1: 1.0, 2: 3.0}, True, [1, 1]),
    (3, 0.9, "ipl", dict(n=12.0, A=1.0), 1.2 * SIG, {1: 1.0, 2: 2.0}, False, [1, 1, 1]),
    (3, -0.9, "lj", dict(), 1.2 * SIG, {1: 1.0, 2: 4.0}, True, [1, 1, 1]),
    (3, 0.0, "hh", dict(alpha=2.5), 1.0 * SIG + 0.2, {1: 1.5, 2: 0.5}, True, [1, 1, 0]),
    (3, 0.5, "ipl", dict(n=8.0, A=2.0), 1.2 * SIG, {1: 1.0, 2: 1.0}, True, [0, 0, 0]),
]


def lib_params(model, kw):
    if model == "lj":
        return InteractionParams(model_name=ModelName.lennard_jones)
    if model == "ipl":
        return InteractionParams(model_name=ModelName.inverse_power_law, ipl_n=kw["n"], ipl_A=kw["A"])
    return InteractionParams(model_name=ModelName.harmonic_hertz, harmonic_hertz_alpha=kw["alpha"])


def run_case(case, rng, tmpdir, tag):
    ndim, tilt, model, kw, rc, masses, shift, ppp = case
    snap = make_config(ndim, rng, tilt, ppp)
    if model == "hh":
        # harmonic/hertz: the interaction range is sigma itself
        sig, rc = rc, rc
    else:
        sig = SIG
    hm = HessianMatrix(snapshot=snap, masses=masses, epsilons=EPS, sigmas=sig,
                       r_cuts=rc, ppp=np.array(ppp), shiftpotential=shift)
    out = os.path.join(tmpdir, tag)
    hm.diagonalize_hessian(lib_params(model, kw), saveevecs=True, savehessian=True, outputfile=out)
    H = np.load(out + ".hessianmatrix.npy")
    evecs = np.load(out + ".evecs.npy")
    table = pd.read_csv(out + ".omega_PR.csv")

    Href = ref_hessian(snap.positions, snap.particle_type, snap.hmatrix, ppp, masses,
                       EPS, sig, rc, model, shift, **kw)
    scale = np.abs(Href).max()
    assert scale > 0, "degenerate test input: no interacting pair"
    np.testing.assert_allclose(H, Href, rtol=0, atol=1e-10 * scale, err_msg=tag + " hessian")
    np.testing.assert_allclose(H, H.T, rtol=0, atol=1e-10 * scale, err_msg=tag + " symmetry")
    if all(ppp):
        msq = np.sqrt([masses[t] for t in snap.particle_type])
        for d in range(ndim):
            t = np.zeros((snap.nparticle, ndim))
            t[:, d] = msq
            assert np.abs(H @ t.ravel()).max() < 1e-9 * scale, tag + " translation"
    evals = np.linalg.eigvalsh(Href)
    omega = table["omega"].values
    # omega = sqrt(eigenvalue) for positive eigenvalues, the eigenvalue itself otherwise
    lam = np.where(omega > 0, omega * omega, omega)
    np.testing.assert_allclose(lam, evals, rtol=0, atol=1e-9 * scale, err_msg=tag + " omega")
    assert np.all(np.diff(omega) >= -1e-6 * np.sqrt(scale)), tag + " omega order"
    pr = table["PR"].values
    assert np.all(pr > 0) and np.all(pr <= 1 + 1e-12), tag + " PR range"
    pr_ref = np.array([ref_pr(evecs[:, k].reshape(snap.nparticle, ndim)) for k in range(evecs.shape[1])])
    np.testing.assert_allclose(pr, pr_ref, rtol=1e-10, atol=0, err_msg=tag + " PR")
    return snap, hm, H


SEED = 404


def _snap(pos, types, h):
    ndim = pos.shape[1]
    bounds = np.column_stack((np.zeros(ndim), np.diag(h)))
    return SingleSnapshot(timestep=0, nparticle=pos.shape[0], particle_type=types, positions=pos,
                          boxlength=np.diag(h).copy(), boxbounds=bounds, realbounds=bounds, hmatrix=h)


def _run(snap, masses, ppp, model, kw, shift, rc, tmpdir, tag):
    hm = HessianMatrix(snapshot=snap, masses=masses, epsilons=EPS, sigmas=SIG, r_cuts=rc,
                       ppp=np.array(ppp), shiftpotential=shift)
    out = os.path.join(tmpdir, tag)
    hm.diagonalize_hessian(lib_params(model, kw), saveevecs=True, savehessian=True, outputfile=out)
    H = np.load(out + ".hessianmatrix.npy")
    types = np.asarray(snap.particle_type).astype(int)
    Href = ref_hessian(snap.positions, types, snap.hmatrix, ppp, masses, EPS, SIG, rc, model, shift, **kw)
    return H, Href, np.load(out + ".evecs.npy"), pd.read_csv(out + ".omega_PR.csv")


def extra_checks(rng, tmpdir):
    masses = {1: 1.0, 2: 3.0}
    rc = 1.3 * SIG
    for ndim in (2, 3):
        ppp = [1] * ndim
        h = np.eye(ndim) * 8.0
        # a single particle: no pair at all
        H, Href, evecs, table = _run(_snap(np.full((1, ndim), 2.0), np.array([2]), h), masses, ppp,
                                     "lj", dict(), True, rc, tmpdir, f"one{ndim}")
        assert H.shape == (ndim, ndim) and not H.any() and not Href.any()
        assert np.all(table["omega"].values == 0) and np.allclose(table["PR"].values, 1.0)
        # two particles farther apart than every cutoff: no interacting pair
        pos = np.array([np.full(ndim, 1.0), np.full(ndim, 4.9)])
        H, Href, evecs, table = _run(_snap(pos, np.array([1, 2]), h), masses, ppp,
                                     "ipl", dict(n=10.0, A=1.0), True, rc, tmpdir, f"far{ndim}")
        assert not H.any() and not Href.any()
        # a dense cluster plus isolated particles in an open (non-periodic) box: coordination
        # numbers range from 0 to many, and the isolated rows / columns stay empty
        cluster = make_config(ndim, rng, 0.0, [0] * ndim)
        lonely = np.array([np.full(ndim, -7.0), np.full(ndim, 15.0)])
        pos = np.vstack((lonely[:1], cluster.positions, lonely[1:]))
        types = np.concatenate(([1], cluster.particle_type, [2]))
        hbig = np.eye(ndim) * 40.0
        for model, kw, shift in (("lj", dict(), True), ("ipl", dict(n=10.0, A=1.0), False)):
            H, Href, evecs, table = _run(_snap(pos, types, hbig), masses, [0] * ndim,
                                         model, kw, shift, rc, tmpdir, f"open{ndim}{model}")
            scale = np.abs(Href).max()
            np.testing.assert_allclose(H, Href, rtol=0, atol=1e-10 * scale)
            assert not H[:ndim].any() and not H[-ndim:].any() and not H[:, :ndim].any() and not H[:, -ndim:].any()
            coordination = (np.abs(H).reshape(len(types), ndim, len(types), ndim).sum(axis=(1, 3)) > 0).sum(axis=1)
            assert coordination.min() == 0 and len(set(coordination.tolist())) > 2
            pr = table["PR"].values
            assert np.all(pr > 0) and np.all(pr <= 1 + 1e-12)
        # particle types stored as floats (1.0 / 2.0), negative tilt
        base = make_config(ndim, rng, -1.1, ppp)
        fsnap = SingleSnapshot(timestep=0, nparticle=base.nparticle,
                               particle_type=base.particle_type.astype(float), positions=base.positions,
                               boxlength=base.boxlength, boxbounds=base.boxbounds,
                               realbounds=base.realbounds, hmatrix=base.hmatrix)
        H, Href, evecs, table = _run(fsnap, masses, ppp, "lj", dict(), True, rc, tmpdir, f"ftype{ndim}")
        np.testing.assert_allclose(H, Href, rtol=0, atol=1e-10 * np.abs(Href).max())
    # more than 100 particles (2D, triclinic, mixed periodicity)
    h = np.array([[12.0, 0.0], [2.0, 10.0]])
    frac = np.stack(np.meshgrid(np.arange(12) / 12, np.arange(10) / 10, indexing="ij"), axis=-1).reshape(-1, 2)
    pos = frac @ h + rng.uniform(-0.1, 0.1, size=frac.shape)
    types = rng.permutation(np.arange(len(pos)) % 2 + 1)
    for ppp in ([1, 1], [0, 1]):
        H, Href, evecs, table = _run(_snap(pos, types, h), masses, ppp, "ipl", dict(n=12.0, A=1.0), True,
                                     1.25 * SIG, tmpdir, "large" + "".join(map(str, ppp)))
        scale = np.abs(Href).max()
        np.testing.assert_allclose(H, Href, rtol=0, atol=1e-10 * scale)
        np.testing.assert_allclose(H, H.T, rtol=0, atol=1e-10 * scale)


def check_pair_matrix(rng):
    """public HessianMatrix.pair_matrix against s'' rr^T/r^2 + (s'-s'rc)(I/r - rr^T/r^3)"""
    for ndim in (2, 3):
        snap = make_config(ndim, rng, 0.4, [1] * ndim)
        hm = HessianMatrix(snapshot=snap, masses={1: 1.0, 2: 2.0}, epsilons=EPS, sigmas=SIG,
                           r_cuts=1.2 * SIG, ppp=np.ones(ndim, dtype=int))
        samples = [rng.normal(size=ndim) for _ in range(20)]
        samples.append(np.eye(ndim)[0] * 0.9)          # vector along an axis (zero components)
        samples.append(-np.eye(ndim)[ndim - 1] * 1.1)
        for rji in samples:
            s1, s1rc, s2 = rng.normal(size=3)
            for dudrs in ([s1, s1rc, s2], [s1, 0, s2], (np.float64(s1), 0.0, np.float64(s2))):
                bi, bj = hm.pair_matrix(rji, list(dudrs))
                r = np.sqrt(np.sum(rji * rji))
                rr = np.outer(rji, rji)
                ref = dudrs[2] * rr / r**2 + (dudrs[0] - dudrs[1]) * (np.eye(ndim) / r - rr / r**3)
                assert bi.shape == (ndim, ndim) and bj.shape == (ndim, ndim)
                np.testing.assert_allclose(bi, ref, rtol=1e-11, atol=1e-12 * np.abs(ref).max())
                assert np.array_equal(bj, -bi)
                assert np.array_equal(bi, bi.T)


def check_pair_interactions(rng):
    """public PairInteractions.caller against the reference derivatives"""
    for _ in range(20):
        sig = rng.uniform(0.8, 1.4)
        eps = rng.uniform(0.5, 2.0)
        for model, kw in (("lj", dict()), ("ipl", dict(n=rng.uniform(4, 14), A=rng.uniform(0.5, 2))),
                          ("hh", dict(alpha=rng.choice([2.0, 2.5])))):
            rc = sig if model == "hh" else 2.5 * sig
            r = rng.uniform(0.8, 0.99) * sig
            for shift in (True, False):
                got = PairInteractions(r, eps, sig, rc, shift=shift).caller(lib_params(model, kw))
                ref = ref_derivs(model, r, eps, sig, rc, shift, **kw)
                np.testing.assert_allclose(np.array(got, dtype=float), np.array(ref), rtol=1e-11)


def check_participation_ratio(rng):
    """public participation_ratio against an explicit double loop"""
    for ndim in (1, 2, 3):
        for npart in (1, 2, 7, 64):
            v = rng.normal(size=(npart, ndim))
            np.testing.assert_allclose(participation_ratio(v), ref_pr(v), rtol=1e-12)
    # fully extended and fully localised fields
    np.testing.assert_allclose(participation_ratio(np.ones((9, 3))), 1.0, rtol=1e-14)
    loc = np.zeros((8, 2))
    loc[3] = [0.6, -0.8]
    np.testing.assert_allclose(participation_ratio(loc), 1.0 / 8, rtol=1e-14)
    # non-contiguous input (a column of an eigenvector matrix), float32 and integer fields
    big = rng.normal(size=(30, 30))
    np.testing.assert_allclose(participation_ratio(big[:, 4].reshape(10, 3)),
                               ref_pr(big[:, 4].reshape(10, 3)), rtol=1e-12)
    np.testing.assert_allclose(participation_ratio(big[:, ::3][:, :2]), ref_pr(big[:, ::3][:, :2]), rtol=1e-12)
    ivec = rng.integers(-4, 5, size=(12, 3))
    np.testing.assert_allclose(participation_ratio(ivec), ref_pr(ivec), rtol=1e-12)
    f32 = rng.normal(size=(12, 2)).astype(np.float32)
    np.testing.assert_allclose(participation_ratio(f32), ref_pr(f32), rtol=1e-5)


def main():
    import logging
    import warnings
    logging.disable(logging.CRITICAL)
    warnings.simplefilter("ignore", RuntimeWarning)   # sqrt of the (discarded) negative eigenvalues
    rng = np.random.default_rng(SEED)
    tmpdir = tempfile.mkdtemp()
    try:
        check_pair_matrix(rng)
        check_pair_interactions(rng)
        check_participation_ratio(rng)
        for k, case in enumerate(CASES):
            run_case(case, rng, tmpdir, f"case{k}")
        extra_checks(rng, tmpdir)
    finally:
        shutil.rmtree(tmpdir, ignore_errors=True)
    print("demo OK")
    return 0


if __name__ == "__main__":
    sys.exit(main())
