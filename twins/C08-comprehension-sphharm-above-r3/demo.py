"""
Demo for the refactoring 'comprehension-sphharm-above'
(append loop over m in SphHarm_above -> list comprehension).

SphHarm_above(l, theta, phi) returns Y_lm(polar theta, azimuth phi) for m = -l..l,
delegated to scipy with swapped angle convention and phi < 0 shifted by 2 pi.
Checked against an independent reference (associated Legendre recurrence with
Condon-Shortley phase, written below) for l = 11..20 (and the smaller degrees, which the
public function also accepts), for negative / zero / boundary azimuths, and through the
dispatcher sph_harm_l.
"""
import math
import sys

import numpy as np

from PyMatterSim.utils import spherical_harmonics as sh


def legendre_plm(l, m, x):
    """associated Legendre P_l^m(x), m >= 0, including Condon-Shortley phase"""
    pmm = 1.0
    if m > 0:
        somx2 = math.sqrt((1.0 - x) * (1.0 + x))
        fact = 1.0
        for _ in range(m):
            pmm *= -fact * somx2
            fact += 2.0
    if l == m:
        return pmm
    pmmp1 = x * (2 * m + 1) * pmm
    if l == m + 1:
        return pmmp1
    pll = 0.0
    for ll in range(m + 2, l + 1):
        pll = (x * (2 * ll - 1) * pmmp1 - (ll + m - 1) * pmm) / (ll - m)
        pmm, pmmp1 = pmmp1, pll
    return pll


def ylm_reference(l, theta, phi):
    """orthonormal Y_lm(polar theta, azimuth phi), m = -l..l"""
    out = np.zeros(2 * l + 1, dtype=complex)
    for m in range(0, l + 1):
        norm = math.sqrt((2 * l + 1) / (4 * math.pi) * math.factorial(l - m) / math.factorial(l + m))
        val = norm * legendre_plm(l, m, math.cos(theta)) * complex(math.cos(m * phi), math.sin(m * phi))
        out[l + m] = val
        out[l - m] = (-1) ** m * val.conjugate()
    return out


def main():
    rng = np.random.default_rng(80)
    angles = [(0.0, 0.0), (math.pi, math.pi), (math.pi / 2, -math.pi / 2), (0.3, -math.pi),
              (1.0, -1e-300), (2.0, 0.0), (np.float64(0.7), np.float64(-2.9))]
    angles += [(float(t), float(p)) for t, p in zip(rng.uniform(0, np.pi, 25), rng.uniform(-np.pi, np.pi, 25))]
    nfail = 0
    for theta, phi in angles:
        for l in [0, 1, 2, 6, 10, 11, 12, 13, 14, 15, 16, 17, 18, 19, 20]:
            got = sh.SphHarm_above(l, theta, phi)
            ref = ylm_reference(l, theta, phi)
            if got.shape != (2 * l + 1,) or not np.iscomplexobj(got):
                print("SHAPE/DTYPE l=%d: %r %r" % (l, got.shape, got.dtype))
                nfail += 1
                continue
            if not np.allclose(got, ref, rtol=1e-9, atol=1e-9):
                print("MISMATCH l=%d theta=%r phi=%r" % (l, theta, phi))
                nfail += 1
            if abs((np.abs(got) ** 2).sum() - (2 * l + 1) / (4 * np.pi)) > 1e-9:
                print("SUM RULE l=%d" % l)
                nfail += 1
            signs = (-1.0) ** np.arange(-l, l + 1)
            if not np.allclose(got[::-1], signs * got.conj(), atol=1e-9):
                print("SYMMETRY l=%d" % l)
                nfail += 1
            # element k is the order m = k - l: compare with the single-order scipy value
            phi_pos = phi + 2 * np.pi if phi < 0 else phi
            for k, m in enumerate(range(-l, l + 1)):
                if got[k] != sh.sph_harm(m, l, phi_pos, theta):
                    print("ORDER l=%d m=%d" % (l, m))
                    nfail += 1
            if l > 10 and sh.sph_harm_l(l, theta, phi).tobytes() != got.tobytes():
                print("DISPATCH l=%d" % l)
                nfail += 1
    # the float argument of the caller is not modified by the phi shift
    phi0 = -1.25
    sh.SphHarm_above(11, 0.4, phi0)
    if phi0 != -1.25:
        nfail += 1
    if nfail:
        print("FAILED: %d problems" % nfail)
        return 1
    print("OK comprehension-sphharm-above: %d angle pairs" % len(angles))
    return 0


if __name__ == "__main__":
    sys.exit(main())
