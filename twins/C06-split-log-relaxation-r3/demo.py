"""
demo for the refactoring 'split-log-relaxation' (kind g):
LogDynamics.relaxation is split into three private methods called in sequence
(_displacement_from_first, _frame_observables, _collect_results).

Exercises LogDynamics.relaxation (first frame as the only origin; logarithmic
timesteps; 2D/3D; orthogonal and triclinic cells with negative tilt; xu only /
x only / both; slow and fast; boolean particle mask; neighbour file with
unequal coordination numbers and unsorted ids; two-frame trajectory; csv
output) and, for completeness, Dynamics.relaxation / sq4, cage_relative and
alpha2factor, and compares with a reference written directly from the
definitions.
Run: PYTHONPATH=<worktree> /venv/bin/python demo.py
"""
import logging
import os
import shutil
import sys
import tempfile

import numpy as np
import pandas as pd

logging.disable(logging.CRITICAL)

from PyMatterSim.dynamic.dynamics import Dynamics, LogDynamics, cage_relative  # noqa: E402
from PyMatterSim.reader.reader_utils import SingleSnapshot, Snapshots  # noqa: E402
from PyMatterSim.utils.funcs import alpha2factor  # noqa: E402
from PyMatterSim.utils.wavevector import choosewavevector  # noqa: E402

RTOL = 1e-10
ATOL = 1e-12
COLUMNS = "t isf Qt X4_Qt msd alpha2".split()


# --------------------------------------------------------------------------
# synthetic trajectories
# --------------------------------------------------------------------------
def make_cell(ndim, triclinic, rng):
    """rows of the h-matrix are the cell vectors; tilts may be negative"""
    lengths = rng.uniform(5.5, 7.0, size=ndim)
    hmatrix = np.diag(lengths)
    if triclinic:
        hmatrix[1, 0] = -0.9  # negative xy tilt
        if ndim == 3:
            hmatrix[2, 0] = 0.7
            hmatrix[2, 1] = -0.4
    return lengths, hmatrix


def make_trajectory(rng, nframes, nparticle, ndim, triclinic=False, timesteps=None):
    """unwrapped and wrapped coordinates of a mixed trajectory:
    one third arrested, one third diffusive, one third ballistic"""
    lengths, hmatrix = make_cell(ndim, triclinic, rng)
    start = rng.uniform(0, 1, size=(nparticle, ndim)) @ hmatrix
    kinds = np.arange(nparticle) % 3
    velocity = rng.normal(0, 0.12, size=(nparticle, ndim))
    unwrapped = [start]
    for _ in range(1, nframes):
        step = np.zeros((nparticle, ndim))
        step[kinds == 1] = rng.normal(0, 0.15, size=((kinds == 1).sum(), ndim))
        step[kinds == 2] = velocity[kinds == 2]
        unwrapped.append(unwrapped[-1] + step)
    unwrapped = np.array(unwrapped)
    frac = unwrapped @ np.linalg.inv(hmatrix)
    wrapped = (frac - np.floor(frac)) @ hmatrix
    types = rng.integers(1, 3, size=nparticle)
    types[:2] = [1, 2]
    if timesteps is None:
        timesteps = 1000 + 50 * np.arange(nframes)
    bounds = np.column_stack((np.zeros(ndim), lengths))

    def pack(positions):
        return Snapshots(
            nsnapshots=nframes,
            snapshots=[
                SingleSnapshot(
                    timestep=int(timesteps[n]),
                    nparticle=nparticle,
                    particle_type=types.copy(),
                    positions=positions[n].copy(),
                    boxlength=lengths.copy(),
                    boxbounds=bounds.copy(),
                    realbounds=bounds.copy(),
                    hmatrix=hmatrix.copy(),
                )
                for n in range(nframes)
            ],
        )

    return {
        "xu": pack(unwrapped), "x": pack(wrapped), "unwrapped": unwrapped,
        "wrapped": wrapped, "hmatrix": hmatrix, "lengths": lengths,
        "types": types, "timesteps": np.asarray(timesteps),
    }


def write_neighbors(filename, rng, nframes, nparticle, max_cn=5):
    """neighbour file with unequal coordination numbers and unsorted ids;
    returns the lists (0-based ids) for the reference implementation"""
    lists = []
    with open(filename, "w", encoding="utf-8") as f:
        for _ in range(nframes):
            frame = {}
            f.write("id   cn   neighborlist\n")
            for i in rng.permutation(nparticle):
                cn = int(rng.integers(1, max_cn + 1))
                others = np.delete(np.arange(nparticle), i)
                neigh = rng.choice(others, size=cn, replace=False)
                frame[int(i)] = neigh
                f.write(f"{i + 1} {cn} " + " ".join(str(j + 1) for j in neigh) + " \n")
            lists.append(frame)
    return lists


# --------------------------------------------------------------------------
# straightforward reference implementations (definition, origin by origin)
# --------------------------------------------------------------------------
def ref_displacement(traj, use_wrapped, ppp, n0, n1, nlist=None, max_neighbors=30):
    if use_wrapped:
        disp = traj["wrapped"][n1] - traj["wrapped"][n0]
        frac = disp @ np.linalg.inv(traj["hmatrix"])
        frac = frac - np.rint(frac) * np.asarray(ppp)[None, :]
        disp = frac @ traj["hmatrix"]
    else:
        disp = traj["unwrapped"][n1] - traj["unwrapped"][n0]
    if nlist is not None:
        relative = np.empty_like(disp)
        for i in range(disp.shape[0]):
            neigh = nlist[i][:max_neighbors]
            relative[i] = disp[i] - sum(disp[j] for j in neigh) / len(neigh)
        disp = relative
    return disp


def ref_observables(disp, qvalues, cut2, cal_type):
    d2 = (disp**2).sum(axis=1)
    isf = np.mean([np.cos(qvalues[i] * disp[i, k]) for i in range(disp.shape[0]) for k in range(disp.shape[1])])
    overlap = np.mean(d2 < cut2) if cal_type == "slow" else np.mean(d2 > cut2)
    return isf, overlap, d2.mean(), (d2**2).mean()


def ref_linear(traj, use_wrapped, ppp, dt, diameters, a, cal_type, qconst=2 * np.pi,
               condition=None, nlists=None, max_neighbors=30):
    nframes = traj["unwrapped"].shape[0]
    ndim = traj["unwrapped"].shape[2]
    sigma = np.array([diameters[t] for t in traj["types"]])
    rows = []
    for lag in range(1, nframes):
        acc = []
        for n0 in range(0, nframes - lag):
            disp = ref_displacement(traj, use_wrapped, ppp, n0, n0 + lag,
                                    None if nlists is None else nlists[n0], max_neighbors)
            sel = np.ones(len(sigma), dtype=bool) if condition is None else condition[n0]
            acc.append(ref_observables(disp[sel], (qconst / sigma)[sel], ((a * sigma) ** 2)[sel], cal_type))
        acc = np.array(acc)
        isf, qt, r2, r4 = acc.mean(axis=0)
        qt2 = (acc[:, 1] ** 2).mean()
        nsel = len(sigma) if condition is None else int(condition[0].sum())
        prefactor = {2: 1.0 / 2.0, 3: 3.0 / 5.0}[ndim]
        time = (traj["timesteps"][lag] - traj["timesteps"][0]) * dt
        rows.append([time, isf, qt, nsel * (qt2 - qt**2), r2, prefactor * r4 / r2**2 - 1])
    return np.array(rows)


def ref_log(traj, use_wrapped, ppp, dt, diameters, a, cal_type, qconst=2 * np.pi,
            condition=None, nlist=None, max_neighbors=30):
    nframes = traj["unwrapped"].shape[0]
    ndim = traj["unwrapped"].shape[2]
    sigma = np.array([diameters[t] for t in traj["types"]])
    sel = np.ones(len(sigma), dtype=bool) if condition is None else condition
    rows = []
    for n in range(1, nframes):
        disp = ref_displacement(traj, use_wrapped, ppp, 0, n, nlist, max_neighbors)
        isf, qt, r2, r4 = ref_observables(disp[sel], (qconst / sigma)[sel], ((a * sigma) ** 2)[sel], cal_type)
        prefactor = {2: 1.0 / 2.0, 3: 3.0 / 5.0}[ndim]
        time = (traj["timesteps"][n] - traj["timesteps"][0]) * dt
        rows.append([time, isf, qt, 0.0, r2, prefactor * r4 / r2**2 - 1])
    return np.array(rows)


def ref_sq4(traj, use_wrapped, structure_positions, ppp, dt, diameters, a, cal_type, t, qrange,
            condition=None, nlists=None, max_neighbors=30):
    nframes = traj["unwrapped"].shape[0]
    ndim = traj["unwrapped"].shape[2]
    sigma = np.array([diameters[tp] for tp in traj["types"]])
    interval = (traj["timesteps"][1] - traj["timesteps"][0]) * dt
    lag = round(t / interval)
    twopidl = 2 * np.pi / traj["lengths"]
    numofq = int(qrange * 2.0 / twopidl.min())
    qvector = choosewavevector(ndim=ndim, numofq=numofq, onlypositive=False).astype(float) * twopidl[None, :]
    qnorm = np.linalg.norm(qvector, axis=1)
    total = 0
    for n0 in range(nframes - lag):
        disp = ref_displacement(traj, use_wrapped, ppp, n0, n0 + lag,
                                None if nlists is None else nlists[n0], max_neighbors)
        d2 = (disp**2).sum(axis=1)
        mobile = d2 < (a * sigma) ** 2 if cal_type == "slow" else d2 > (a * sigma) ** 2
        if condition is not None:
            mobile = mobile & condition[n0].astype(bool)
        pos = structure_positions[n0][mobile]
        rho = np.exp(-1j * (qvector @ pos.T)).sum(axis=1) / np.sqrt(mobile.sum())
        frame = pd.DataFrame({"q": qnorm, "Sq": (rho * rho.conj()).real}).round(8)
        total = total + frame["Sq"].groupby(frame["q"]).mean().reset_index()
    return (total / (nframes - lag)).values


def check(name, got, expected, rtol=RTOL, atol=ATOL):
    got = np.asarray(got, dtype=float)
    expected = np.asarray(expected, dtype=float)
    if got.shape != expected.shape or not np.allclose(got, expected, rtol=rtol, atol=atol):
        print(f"FAIL {name}: shapes {got.shape} {expected.shape}")
        if got.shape == expected.shape:
            print("  max abs deviation", np.abs(got - expected).max())
        sys.exit(1)
    print(f"ok   {name}")


# --------------------------------------------------------------------------
# scenarios
# --------------------------------------------------------------------------
DIAMETERS = {1: 1.0, 2: 1.3}


def scenario_linear(tmpdir, seed, ndim, triclinic, coords, cal_type, with_condition,
                    with_neighbors, nframes=6, nparticle=24, a=0.3, qconst=2 * np.pi,
                    max_neighbors=30, do_sq4=True):
    """Dynamics.relaxation / Dynamics.sq4 against the definitions"""
    rng = np.random.default_rng(seed)
    traj = make_trajectory(rng, nframes, nparticle, ndim, triclinic)
    ppp = np.ones(ndim, dtype=int)
    dt = 0.004
    kwargs = {"xu": {"xu_snapshots": traj["xu"]},
              "x": {"x_snapshots": traj["x"]},
              "both": {"xu_snapshots": traj["xu"], "x_snapshots": traj["x"]}}[coords]
    nlists, neighborfile = None, ""
    if with_neighbors:
        neighborfile = os.path.join(tmpdir, f"neigh_{seed}.dat")
        nlists = write_neighbors(neighborfile, rng, nframes, nparticle)
    condition = None
    if with_condition:
        condition = rng.uniform(size=(nframes, nparticle)) < 0.6
        condition[:, :3] = True
    dyn = Dynamics(dt=dt, ppp=ppp, diameters=DIAMETERS, a=a, cal_type=cal_type,
                   neighborfile=neighborfile, max_neighbors=max_neighbors, **kwargs)
    tag = f"{ndim}D tri={int(triclinic)} {coords} {cal_type} cond={int(with_condition)} nb={int(with_neighbors)}"
    outputfile = os.path.join(tmpdir, f"relax_{seed}.csv")
    got = dyn.relaxation(qconst=qconst, condition=condition, outputfile=outputfile)
    assert list(got.columns) == COLUMNS
    expected = ref_linear(traj, coords == "x", ppp, dt, DIAMETERS, a, cal_type, qconst,
                          condition, nlists, max_neighbors)
    check(f"Dynamics.relaxation {tag}", got.values, expected)
    check(f"Dynamics.relaxation csv {tag}", pd.read_csv(outputfile).values, expected)
    sigma = np.array([DIAMETERS[t] for t in traj["types"]])
    check(f"q_const attribute {tag}", dyn.q_const, qconst / sigma)
    if do_sq4:
        lag = 2
        t = lag * 50 * dt
        structure = traj["wrapped"] if coords in ("x", "both") else traj["unwrapped"]
        got = dyn.sq4(t=t, qrange=3.0, condition=condition)
        assert list(got.columns) == ["q", "Sq"]
        expected = ref_sq4(traj, coords == "x", structure, ppp, dt, DIAMETERS, a, cal_type, t, 3.0,
                           condition, nlists, max_neighbors)
        check(f"Dynamics.sq4 {tag}", got.values, expected, rtol=1e-6, atol=1e-7)
    return traj, dyn


def scenario_log(tmpdir, seed, ndim, triclinic, coords, cal_type, with_condition,
                 with_neighbors, nframes=6, nparticle=24, a=0.3, qconst=2 * np.pi, max_neighbors=30):
    """LogDynamics.relaxation: first frame is the only origin"""
    rng = np.random.default_rng(seed)
    timesteps = np.concatenate(([0], 2 ** np.arange(nframes - 1))) * 10
    traj = make_trajectory(rng, nframes, nparticle, ndim, triclinic, timesteps)
    ppp = np.ones(ndim, dtype=int)
    dt = 0.002
    kwargs = {"xu": {"xu_snapshots": traj["xu"]},
              "x": {"x_snapshots": traj["x"]},
              "both": {"xu_snapshots": traj["xu"], "x_snapshots": traj["x"]}}[coords]
    nlist, neighborfile = None, ""
    if with_neighbors:
        neighborfile = os.path.join(tmpdir, f"logneigh_{seed}.dat")
        nlist = write_neighbors(neighborfile, rng, 1, nparticle)[0]
    condition = None
    if with_condition:
        condition = rng.uniform(size=nparticle) < 0.6
        condition[:3] = True
    dyn = LogDynamics(dt=dt, ppp=ppp, diameters=DIAMETERS, a=a, cal_type=cal_type,
                      neighborfile=neighborfile, max_neighbors=max_neighbors, **kwargs)
    tag = f"{ndim}D tri={int(triclinic)} {coords} {cal_type} cond={int(with_condition)} nb={int(with_neighbors)}"
    outputfile = os.path.join(tmpdir, f"logrelax_{seed}.csv")
    got = dyn.relaxation(qconst=qconst, condition=condition, outputfile=outputfile)
    assert list(got.columns) == COLUMNS
    expected = ref_log(traj, coords == "x", ppp, dt, DIAMETERS, a, cal_type, qconst,
                       condition, nlist, max_neighbors)
    check(f"LogDynamics.relaxation {tag}", got.values, expected)
    check(f"LogDynamics.relaxation csv {tag}", pd.read_csv(outputfile).values, expected)
    sigma = np.array([DIAMETERS[t] for t in traj["types"]])
    check(f"q_const attribute {tag}", dyn.q_const, qconst / sigma)
    return traj, dyn


def scenario_cage_relative(seed):
    """cage_relative on a zero-padded neighbour table with unequal coordination numbers"""
    rng = np.random.default_rng(seed)
    for ndim in (2, 3):
        nparticle = 17
        disp = rng.normal(size=(nparticle, ndim))
        table = np.zeros((nparticle, 7), dtype=np.int32)
        expected = np.zeros_like(disp)
        for i in range(nparticle):
            cn = int(rng.integers(1, 7))
            neigh = rng.choice(np.delete(np.arange(nparticle), i), size=cn, replace=False)
            table[i, 0] = cn
            table[i, 1:cn + 1] = neigh
            expected[i] = disp[i] - sum(disp[j] for j in neigh) / cn
        before = disp.copy()
        got = cage_relative(disp, table)
        check(f"cage_relative {ndim}D", got, expected)
        check(f"cage_relative leaves input untouched {ndim}D", disp, before, rtol=0, atol=0)


def scenario_alpha2factor():
    check("alpha2factor(3)", alpha2factor(3), 0.6, rtol=0, atol=1e-16)
    check("alpha2factor(2)", alpha2factor(2), 0.5, rtol=0, atol=0)
    check("alpha2factor()", alpha2factor(), 0.6, rtol=0, atol=1e-16)
    check("alpha2factor(np.int64(2))", alpha2factor(np.int64(2)), 0.5, rtol=0, atol=0)
    check("alpha2factor(ndim=3.0)", alpha2factor(ndim=3.0), 0.6, rtol=0, atol=1e-16)
    for bad in (1, 4, 0, -3):
        try:
            alpha2factor(bad)
        except ValueError as err:
            assert str(err) == "Wrong input dimensionality"
        else:
            print("FAIL alpha2factor accepted", bad)
            sys.exit(1)
    print("ok   alpha2factor rejects other dimensionalities")


def main():
    tmpdir = tempfile.mkdtemp()
    try:
        scenario_alpha2factor()
        scenario_cage_relative(1)
        seed = 100
        for ndim in (2, 3):
            for coords in ("xu", "x", "both"):
                for cal_type in ("slow", "fast"):
                    seed += 1
                    scenario_linear(tmpdir, seed, ndim, triclinic=(coords == "x"), coords=coords,
                                    cal_type=cal_type, with_condition=(seed % 2 == 0),
                                    with_neighbors=(seed % 3 != 0), nframes=5 + seed % 2)
                    scenario_log(tmpdir, seed, ndim, triclinic=(coords == "x"), coords=coords,
                                 cal_type=cal_type, with_condition=(seed % 2 == 1),
                                 with_neighbors=(seed % 3 != 1), nframes=5 + seed % 2)
        # two frames only, truncated neighbour table, non-default a and qconst
        scenario_linear(tmpdir, 7, 3, True, "x", "fast", True, True, nframes=2, a=0.2, qconst=5.0,
                        max_neighbors=3, do_sq4=False)
        scenario_log(tmpdir, 8, 2, True, "x", "slow", True, True, nframes=2, a=0.5, qconst=7.0, max_neighbors=2)
    finally:
        shutil.rmtree(tmpdir, ignore_errors=True)
    print("ALL OK")


if __name__ == "__main__":
    main()
