"""demo for the refactoring 'freud-branch-restructure'
(convert_configuration: swapped if/else arms; cal_neighbors: the two 2D/3D branches merged into
conditional expressions; VolumeMatrix: guard clause for transform_matrix=False)

run: PYTHONPATH=<worktree> /venv/bin/python demo.py [--dump out.pkl]
exits 0 on the unchanged and on the refactored tree.
"""
import logging
import os
import pickle
import shutil
import sys
import tempfile

import freud
import numpy as np

from PyMatterSim.neighbors.freud_neighbors import VolumeMatrix, cal_neighbors, convert_configuration
from PyMatterSim.reader.reader_utils import SingleSnapshot, Snapshots

logging.disable(logging.CRITICAL)


def make_snapshots(rng, nparticle, ndim, lengths, lower, nsnap=2):
    """orthogonal box [lower, lower + lengths]; jittered lattice so that Voronoi cells are generic"""
    lengths = np.asarray(lengths, dtype=float)
    lower = np.asarray(lower, dtype=float)
    snaps = []
    for n in range(nsnap):
        frac = rng.uniform(0.02, 0.98, size=(nparticle, ndim))
        positions = lower + frac * lengths
        boxbounds = np.column_stack((lower, lower + lengths))
        snaps.append(SingleSnapshot(
            timestep=100 * n,
            nparticle=nparticle,
            particle_type=np.ones(nparticle, dtype=np.int32),
            positions=positions,
            boxlength=lengths.copy(),
            boxbounds=boxbounds,
            realbounds=boxbounds.copy(),
            hmatrix=np.diag(lengths),
        ))
    return Snapshots(nsnapshots=nsnap, snapshots=snaps)


def fingerprint(snapshots):
    out = []
    for s in snapshots.snapshots:
        for arr in (s.particle_type, s.positions, s.boxlength, s.boxbounds, s.realbounds, s.hmatrix):
            out.append((arr.dtype.str, arr.shape, arr.tobytes()))
    return out


def ref_points(snapshot):
    """independent: centre the box on the origin, pad z for 2D"""
    centre = 0.5 * (snapshot.boxbounds[:, 0] + snapshot.boxbounds[:, 1])
    pts = snapshot.positions - centre
    if pts.shape[1] == 2:
        pts = np.column_stack((pts, np.zeros(len(pts))))
    return pts


def ref_voronoi(snapshot):
    box = freud.box.Box.from_box(snapshot.boxlength)
    voro = freud.locality.Voronoi()
    voro.compute((box, ref_points(snapshot)))
    return voro


def ref_volume_matrix(snapshot, ndim, deltar):
    """straightforward central finite differences of the Voronoi volumes"""
    box = freud.box.Box.from_box(snapshot.boxlength)
    base = ref_points(snapshot)
    n = base.shape[0]

    def volumes(pts):
        return np.array(freud.locality.Voronoi().compute((box, pts)).volumes)

    original = volumes(base)
    mat = np.zeros((n, n * ndim))
    for i in range(n):
        for j in range(ndim):
            plus = base.copy()
            plus[i, j] += deltar
            minus = base.copy()
            minus[i, j] -= deltar
            mat[:, ndim * i + j] = (volumes(plus) - volumes(minus)) / (2 * deltar)
    # diagonal blocks: minus the sum of the off-diagonal blocks of the same row
    for i in range(n):
        mat[i, ndim * i:ndim * i + ndim] = 0.0
        mat[i, ndim * i:ndim * i + ndim] = -mat[i].reshape(n, ndim).sum(axis=0)
    return mat / original[:, None], original


def check_convert(snapshots, centred):
    fp = fingerprint(snapshots)
    list_box, list_points = convert_configuration(snapshots)
    assert len(list_box) == len(list_points) == snapshots.nsnapshots
    for snapshot, box, points in zip(snapshots.snapshots, list_box, list_points):
        ndim = snapshot.positions.shape[1]
        assert points.shape == (snapshot.nparticle, 3)
        assert np.allclose(points, ref_points(snapshot), rtol=0, atol=1e-12)
        assert np.allclose([box.Lx, box.Ly], snapshot.boxlength[:2])
        assert box.is2D == (ndim == 2)
        if centred and ndim == 3:
            # documented aliasing: a box centred on the origin hands back the snapshot array
            assert points is snapshot.positions
        else:
            assert not np.shares_memory(points, snapshot.positions)
    assert fingerprint(snapshots) == fp
    return [np.array(p) for p in list_points]


def parse_rows(path, header):
    frames = []
    with open(path, encoding="utf-8") as f:
        for line in f:
            if line.strip() == header.strip():
                frames.append([])
            else:
                frames[-1].append(line.split())
    return frames


def check_cal_neighbors(snapshots, tmpdir, tag):
    fp = fingerprint(snapshots)
    ndim = snapshots.snapshots[0].positions.shape[1]
    out = os.path.join(tmpdir, tag)
    assert cal_neighbors(snapshots, outputfile=out) is None
    assert fingerprint(snapshots) == fp
    bond = out + (".edgelength.dat" if ndim == 2 else ".facearea.dat")
    other = out + (".facearea.dat" if ndim == 2 else ".edgelength.dat")
    assert os.path.exists(bond) and not os.path.exists(other)
    bond_header = "id   cn   edgelengthlist" if ndim == 2 else "id   cn   facearealist"
    neigh = parse_rows(out + ".neighbor.dat", "id   cn   neighborlist")
    bonds = parse_rows(bond, bond_header)
    with open(out + ".overall.dat", encoding="utf-8") as f:
        overall = f.read().splitlines()
    assert overall[0] == "id cn area_or_volume"
    overall = [row.split() for row in overall[1:]]
    assert len(neigh) == len(bonds) == snapshots.nsnapshots
    for n, snapshot in enumerate(snapshots.snapshots):
        voro = ref_voronoi(snapshot)
        nlist = np.array(voro.nlist)
        weights = np.array(voro.nlist.weights)
        rows = overall[n * snapshot.nparticle:(n + 1) * snapshot.nparticle]
        assert len(neigh[n]) == len(bonds[n]) == snapshot.nparticle
        for i in range(snapshot.nparticle):
            sel = nlist[:, 0] == i
            expect_ids = (nlist[sel, 1] + 1).tolist()
            assert [int(x) for x in neigh[n][i]] == [i + 1, len(expect_ids)] + expect_ids
            assert [int(x) for x in bonds[n][i][:2]] == [i + 1, len(expect_ids)]
            assert np.allclose([float(x) for x in bonds[n][i][2:]], weights[sel], rtol=0, atol=6e-7)
            assert [int(rows[i][0]), int(rows[i][1])] == [i + 1, len(expect_ids)]
            assert abs(float(rows[i][2]) - voro.volumes[i]) <= 6e-7
        total = sum(float(r[2]) for r in rows)
        assert abs(total - np.prod(snapshot.boxlength)) < 1e-5 * snapshot.nparticle
    # a second call reproduces the same bytes
    contents = {}
    for suffix in (".neighbor.dat", ".overall.dat", bond[len(out):]):
        with open(out + suffix, "rb") as f:
            contents[suffix] = f.read()
    cal_neighbors(snapshots, outputfile=out)
    for suffix, data in contents.items():
        with open(out + suffix, "rb") as f:
            assert f.read() == data, suffix
    return contents


def check_volume_matrix(snapshots, ndim, tmpdir, tag):
    fp = fingerprint(snapshots)
    deltar = 0.01
    results = {}
    for nconfig in range(snapshots.nsnapshots):
        snapshot = snapshots.snapshots[nconfig]
        ref, original = ref_volume_matrix(snapshot, ndim, deltar)
        path = os.path.join(tmpdir, f"{tag}_{nconfig}_raw.npy")
        raw = VolumeMatrix(snapshots, ndim=ndim, nconfig=nconfig, deltar=deltar,
                           transform_matrix=False, outputfile=path)
        assert fingerprint(snapshots) == fp
        assert raw.shape == (snapshot.nparticle, snapshot.nparticle * ndim)
        assert np.allclose(raw, ref, rtol=1e-6, atol=1e-7), np.abs(raw - ref).max()
        # total volume is conserved: sum_i V_i * A[i, :] == 0
        # (finite differences: only approximately)
        assert np.abs(original @ raw).max() < 0.05 * np.abs(raw).max()
        assert np.array_equal(np.load(path), raw)
        # no file is written without an output file name, and the result is the same
        listing = sorted(os.listdir(tmpdir))
        raw2 = VolumeMatrix(snapshots, ndim=ndim, nconfig=nconfig, deltar=deltar, transform_matrix=False)
        assert sorted(os.listdir(tmpdir)) == listing
        assert np.array_equal(raw, raw2)

        path = os.path.join(tmpdir, f"{tag}_{nconfig}_tr.npy")
        transformed = VolumeMatrix(snapshots, ndim=ndim, nconfig=nconfig, deltar=deltar, outputfile=path)  # default True
        assert fingerprint(snapshots) == fp
        expect = raw.T @ np.linalg.inv(raw @ raw.T) @ raw
        scale = max(1.0, np.abs(expect).max())
        assert transformed.shape == (snapshot.nparticle * ndim,) * 2
        assert np.allclose(transformed, expect, rtol=1e-6, atol=1e-6 * scale)
        assert np.array_equal(np.load(path), transformed)
        again = VolumeMatrix(snapshots, ndim=ndim, nconfig=nconfig, deltar=deltar, transform_matrix=True)
        assert np.array_equal(again, transformed)
        results[nconfig] = (raw, transformed)
    return results


def main():
    rng = np.random.default_rng(77)
    tmpdir = tempfile.mkdtemp()
    dump = {}
    try:
        cases = {
            # name: (nparticle, ndim, lengths, lower)
            "2d_centred": (14, 2, [6.0, 5.0], [-3.0, -2.5]),
            "2d_shifted": (14, 2, [6.0, 5.0], [0.0, 1.5]),
            "3d_centred": (18, 3, [4.0, 5.0, 4.5], [-2.0, -2.5, -2.25]),
            "3d_shifted": (18, 3, [4.0, 5.0, 4.5], [1.0, -7.0, 0.25]),
            # bounds sum to zero although the box is NOT centred: the (unshifted) alias branch is taken
            "2d_sum_zero_offcentre": (14, 2, [6.0, 6.0], [-4.0, -2.0]),
        }
        for name, (npart, ndim, lengths, lower) in cases.items():
            snapshots = make_snapshots(rng, npart, ndim, lengths, lower)
            if name == "2d_sum_zero_offcentre":
                fp = fingerprint(snapshots)
                _, pts = convert_configuration(snapshots)
                for s, p in zip(snapshots.snapshots, pts):
                    assert np.array_equal(p[:, :2], s.positions) and np.all(p[:, 2] == 0)
                assert fingerprint(snapshots) == fp
                dump[name] = [np.array(p) for p in pts]
                continue
            pts = check_convert(snapshots, centred=name.endswith("centred"))
            files = check_cal_neighbors(snapshots, tmpdir, name)
            mats = check_volume_matrix(snapshots, ndim, tmpdir, name)
            # interleaving: the results did not depend on what ran in between
            pts2 = check_convert(snapshots, centred=name.endswith("centred"))
            assert all(np.array_equal(a, b) for a, b in zip(pts, pts2))
            dump[name] = (pts, files, mats)
    finally:
        shutil.rmtree(tmpdir, ignore_errors=True)

    if "--dump" in sys.argv:
        with open(sys.argv[sys.argv.index("--dump") + 1], "wb") as f:
            pickle.dump(dump, f)
    print("freud-branch-restructure demo OK")


if __name__ == "__main__":
    main()
