"""
Standalone check of PyMatterSim.static.gr.conditional_gr against a brute-force
reference written here (all pairs at once, explicit weights), for every condition
kind {bool, float, complex, vector, tensor}, 2D and 3D, orthogonal and triclinic
cells (positive and negative tilt), several bin widths and a non-default ppp.

Run as:  PYTHONPATH=<worktree> /venv/bin/python demo.py
Exits 0 when every comparison holds.
"""

import logging
import shutil
import sys
import tempfile

import numpy as np

from PyMatterSim.reader.reader_utils import SingleSnapshot
from PyMatterSim.static.gr import conditional_gr

logging.disable(logging.INFO)  # keep the output short; results are unaffected

TOL = 1e-10
FAILURES = []


def check(name, got, expected, tol=TOL):
    got = np.asarray(got, dtype=np.float64)
    expected = np.asarray(expected, dtype=np.float64)
    if got.shape != expected.shape:
        FAILURES.append(f"{name}: shape {got.shape} != {expected.shape}")
        return
    scale = max(1.0, float(np.abs(expected).max())) if expected.size else 1.0
    err = float(np.abs(got - expected).max()) if expected.size else 0.0
    if not np.isfinite(got).all() or err > tol * scale:
        FAILURES.append(f"{name}: max abs error {err:.3e} (scale {scale:.3e})")


def make_snapshot(rng, ndim, nparticle, kind):
    """synthetic configuration; rows of hmatrix are the cell vectors (LAMMPS convention)"""
    if ndim == 3:
        boxlength = np.array([6.0, 7.0, 6.5])
        if kind == "ortho":
            hmatrix = np.diag(boxlength)
        elif kind == "tri+":
            hmatrix = np.array([[6.0, 0, 0], [1.1, 7.0, 0], [0.7, 0.9, 6.5]])
        else:
            hmatrix = np.array([[6.0, 0, 0], [-1.3, 7.0, 0], [0.8, -1.0, 6.5]])
    else:
        boxlength = np.array([9.0, 8.0])
        if kind == "ortho":
            hmatrix = np.diag(boxlength)
        elif kind == "tri+":
            hmatrix = np.array([[9.0, 0], [1.7, 8.0]])
        else:
            hmatrix = np.array([[9.0, 0], [-2.1, 8.0]])
    frac = rng.random((nparticle, ndim))
    positions = frac @ hmatrix
    particle_type = rng.integers(1, 4, size=nparticle)
    # guarantee that every species is present and that counts are unequal
    particle_type[:3] = [1, 2, 3]
    bounds = np.column_stack((np.zeros(ndim), boxlength))
    return SingleSnapshot(
        timestep=0,
        nparticle=nparticle,
        particle_type=particle_type,
        positions=positions,
        boxlength=boxlength,
        boxbounds=bounds,
        realbounds=bounds,
        hmatrix=hmatrix,
    )


def nideal_factor(ndim):
    return {2: 1.0, 3: 4.0 / 3}[ndim]


def reference(snapshot, weights_matrix, natom, ppp, rdelta):
    """
    brute force: every pair i<j once, minimum image in fractional coordinates,
    histogram weighted by weights_matrix[i, j]; documented normalisation
    """
    pos = snapshot.positions
    npart, ndim = pos.shape
    iu, ju = np.triu_indices(npart, k=1)
    rij = pos[ju] - pos[iu]
    frac = rij @ np.linalg.inv(snapshot.hmatrix)
    frac = frac - np.rint(frac) * np.asarray(ppp)[np.newaxis, :]
    rij = frac @ snapshot.hmatrix
    dist = np.sqrt((rij * rij).sum(axis=1))
    maxbin = int(snapshot.boxlength.min() / 2.0 / rdelta)
    edges = np.linspace(0, maxbin * rdelta, maxbin + 1)
    hist, _ = np.histogram(dist, bins=edges)
    histA, _ = np.histogram(dist, bins=edges, weights=weights_matrix[iu, ju])
    shell = nideal_factor(ndim) * np.pi * (edges[1:] ** ndim - edges[:-1] ** ndim)
    volume = np.prod(snapshot.boxlength)
    gr = 2.0 * hist / npart / (shell * npart / volume)
    gA = 2.0 * histA / natom / (shell * natom / volume)
    r = edges[1:] - 0.5 * rdelta
    return r, gr, gA


def partial_reference(snapshot, selection, ppp, rdelta):
    """partial g_aa from the selected particles alone"""
    pos = snapshot.positions[selection]
    nsel, ndim = pos.shape
    iu, ju = np.triu_indices(nsel, k=1)
    rij = pos[ju] - pos[iu]
    frac = rij @ np.linalg.inv(snapshot.hmatrix)
    frac = frac - np.rint(frac) * np.asarray(ppp)[np.newaxis, :]
    rij = frac @ snapshot.hmatrix
    dist = np.sqrt((rij * rij).sum(axis=1))
    maxbin = int(snapshot.boxlength.min() / 2.0 / rdelta)
    edges = np.linspace(0, maxbin * rdelta, maxbin + 1)
    hist, _ = np.histogram(dist, bins=edges)
    shell = nideal_factor(ndim) * np.pi * (edges[1:] ** ndim - edges[:-1] ** ndim)
    volume = np.prod(snapshot.boxlength)
    return 2.0 * hist / nsel / (shell * nsel / volume)


def run_case(rng, ndim, kind, nparticle, rdelta, ppp):
    tag = f"{ndim}D/{kind}/N={nparticle}/rdelta={rdelta}/ppp={list(ppp)}"
    snap = make_snapshot(rng, ndim, nparticle, kind)
    npart = snap.nparticle
    ones = np.ones((npart, npart))

    # --- boolean selection of one species -> partial g_aa -----------------
    for species in (1, 2):
        sel = snap.particle_type == species
        out = conditional_gr(snap, condition=sel, ppp=ppp, rdelta=rdelta)
        if list(out.columns) != ["r", "gr", "gA"]:
            FAILURES.append(f"{tag} bool: columns {list(out.columns)}")
        w = np.outer(sel, sel).astype(float)
        r, gr, gA = reference(snap, w, int(sel.sum()), ppp, rdelta)
        check(f"{tag} bool{species} r", out["r"], r)
        check(f"{tag} bool{species} gr", out["gr"], gr)
        check(f"{tag} bool{species} gA", out["gA"], gA)
        check(f"{tag} bool{species} gA==partial", out["gA"], partial_reference(snap, sel, ppp, rdelta))

    # --- float scalar: gA, gA_norm; A = 1 reproduces the total -------------
    A = rng.normal(size=npart) + 0.3
    out = conditional_gr(snap, condition=A, ppp=ppp, rdelta=rdelta)
    if list(out.columns) != ["r", "gr", "gA", "gA_norm"]:
        FAILURES.append(f"{tag} float: columns {list(out.columns)}")
    r, gr, gA = reference(snap, np.outer(A, A), npart, ppp, rdelta)
    check(f"{tag} float r", out["r"], r)
    check(f"{tag} float gr", out["gr"], gr)
    check(f"{tag} float gA", out["gA"], gA)
    m2 = A.mean() ** 2
    check(f"{tag} float gA_norm", out["gA_norm"], (gA - m2) / ((A * A).mean() - m2))
    scalar_gA = gA

    out = conditional_gr(snap, condition=np.ones(npart), ppp=ppp, rdelta=rdelta)
    r, gr, gA = reference(snap, ones, npart, ppp, rdelta)
    check(f"{tag} A=1 gA==gr", out["gA"], out["gr"])
    check(f"{tag} A=1 gA", out["gA"], gr)

    # --- complex scalar: Re(A_i conj A_j) --------------------------------
    C = rng.normal(size=npart) + 1j * rng.normal(size=npart)
    out = conditional_gr(snap, condition=C, ppp=ppp, rdelta=rdelta)
    if list(out.columns) != ["r", "gr", "gA"]:
        FAILURES.append(f"{tag} complex: columns {list(out.columns)}")
    w = (C[np.newaxis, :] * np.conj(C)[:, np.newaxis]).real
    r, gr, gA = reference(snap, w, npart, ppp, rdelta)
    check(f"{tag} complex gr", out["gr"], gr)
    check(f"{tag} complex gA", out["gA"], gA)

    # --- vector: dot product, equals the sum over components --------------
    V = rng.normal(size=(npart, ndim))
    V[0] = A[0]  # tie one vector to the scalar field, irrelevant for the maths
    out = conditional_gr(snap, condition=V, conditiontype="vector", ppp=ppp, rdelta=rdelta)
    if list(out.columns) != ["r", "gr", "gA"]:
        FAILURES.append(f"{tag} vector: columns {list(out.columns)}")
    r, gr, gA = reference(snap, V @ V.T, npart, ppp, rdelta)
    check(f"{tag} vector gr", out["gr"], gr)
    check(f"{tag} vector gA", out["gA"], gA)
    comp_sum = 0
    for a in range(ndim):
        comp = conditional_gr(snap, condition=V[:, a].copy(), ppp=ppp, rdelta=rdelta)
        comp_sum = comp_sum + comp["gA"].values
    check(f"{tag} vector == sum of components", out["gA"], comp_sum)

    # complex vector: Re(sum_a A_ia conj A_ja)
    CV = rng.normal(size=(npart, ndim)) + 1j * rng.normal(size=(npart, ndim))
    out = conditional_gr(snap, condition=CV, conditiontype="vector", ppp=ppp, rdelta=rdelta)
    w = (CV @ np.conj(CV).T).real
    r, gr, gA = reference(snap, w, npart, ppp, rdelta)
    check(f"{tag} complex vector gA", out["gA"], gA)

    # --- tensor: trace(A_i A_j), symmetric and general --------------------
    T = rng.normal(size=(npart, ndim, ndim))
    Tsym = 0.5 * (T + np.transpose(T, (0, 2, 1)))
    for label, tens in (("symmetric", Tsym), ("general", T)):
        out = conditional_gr(snap, condition=tens, conditiontype="tensor", ppp=ppp, rdelta=rdelta)
        if list(out.columns) != ["r", "gr", "gA"]:
            FAILURES.append(f"{tag} tensor: columns {list(out.columns)}")
        w = np.einsum("iab,jba->ij", tens, tens)
        r, gr, gA = reference(snap, w, npart, ppp, rdelta)
        check(f"{tag} {label} tensor gr", out["gr"], gr)
        check(f"{tag} {label} tensor gA", out["gA"], gA)
    # symmetric tensor equals the sum over its components treated as scalars
    comp_sum = 0
    for a in range(ndim):
        for b in range(ndim):
            comp = conditional_gr(snap, condition=Tsym[:, a, b].copy(), ppp=ppp, rdelta=rdelta)
            comp_sum = comp_sum + comp["gA"].values
    out = conditional_gr(snap, condition=Tsym, conditiontype="tensor", ppp=ppp, rdelta=rdelta)
    check(f"{tag} symmetric tensor == sum of components", out["gA"], comp_sum)

    # --- wrong conditiontype is rejected ----------------------------------
    try:
        conditional_gr(snap, condition=A, conditiontype="matrix", ppp=ppp, rdelta=rdelta)
    except ValueError:
        pass
    else:
        FAILURES.append(f"{tag}: conditiontype='matrix' did not raise ValueError")
    return scalar_gA


def main():
    tmpdir = tempfile.mkdtemp()
    try:
        rng = np.random.default_rng(20240913)
        cases = [
            (3, "ortho", 41, 0.25, np.array([1, 1, 1])),
            (3, "tri+", 37, 0.2, np.array([1, 1, 1])),
            (3, "tri-", 40, 0.31, np.array([1, 1, 1])),
            (3, "ortho", 30, 0.4, np.array([1, 1, 0])),
            (2, "ortho", 45, 0.15, np.array([1, 1])),
            (2, "tri+", 36, 0.3, np.array([1, 1])),
            (2, "tri-", 39, 0.22, np.array([1, 1])),
            (2, "ortho", 33, 0.5, np.array([0, 1])),
        ]
        for ndim, kind, npart, rdelta, ppp in cases:
            run_case(rng, ndim, kind, npart, rdelta, ppp)
    finally:
        shutil.rmtree(tmpdir, ignore_errors=True)

    if FAILURES:
        print("FAILED")
        for line in FAILURES:
            print("  " + line)
        return 1
    print("conditional_gr agrees with the brute-force reference in all cases")
    return 0


if __name__ == "__main__":
    sys.exit(main())
