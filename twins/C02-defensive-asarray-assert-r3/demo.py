# coding = utf-8
"""
Demo for PyMatterSim.utils.pbc.remove_pbc.

Compares the library function with a straightforward per-vector reference
implementation written here (np.linalg.solve instead of the inverse, an
explicit Python loop over vectors and axes) and checks the contract of the
minimum-image mapping: lattice translations only, half-cell, untouched
non-periodic components, shift invariance, idempotence, shortest image for
orthogonal cells.  Exits 0 when everything agrees.
"""

import itertools
import sys

import numpy as np

from PyMatterSim.utils.pbc import remove_pbc

TOL = 1e-9


def reference_remove_pbc(vectors, hmatrix, ppp):
    """per-vector reference: s = r H^-1 via solve, s_j -= round(s_j) on periodic axes, r' = s H"""
    hmatrix = np.array(hmatrix, dtype=float)
    vectors = np.atleast_2d(np.array(vectors, dtype=float))
    out = np.zeros_like(vectors)
    for n, vec in enumerate(vectors):
        frac = np.linalg.solve(hmatrix.T, vec)
        for j, periodic in enumerate(ppp):
            if periodic:
                frac[j] -= np.round(frac[j])
        for j in range(len(frac)):
            out[n] += frac[j] * hmatrix[j]
    return out


def make_cells(rng):
    """orthogonal and LAMMPS-style lower-triangular cells, 2D and 3D, with negative tilts"""
    cells = []
    for ndim in (2, 3):
        lengths = rng.uniform(3.0, 12.0, size=ndim)
        cells.append(("orthogonal", np.diag(lengths)))
        for sign in (1.0, -1.0):
            tri = np.diag(rng.uniform(3.0, 12.0, size=ndim))
            for i in range(ndim):
                for j in range(i):
                    tri[i, j] = sign * rng.uniform(0.2, 0.49) * tri[j, j]
            cells.append(("triclinic", tri))
    return cells


def check_contract(vectors, out, hmatrix, ppp):
    ppp = np.asarray(ppp)
    hinv = np.linalg.inv(hmatrix)
    vectors2d = np.atleast_2d(np.asarray(vectors, dtype=float))
    # only integer lattice translations along periodic axes, nothing along the others
    shift = (vectors2d - out) @ hinv
    assert np.allclose(shift, np.rint(shift), atol=TOL), "non-integer lattice shift"
    assert np.allclose(shift[:, ppp == 0], 0.0, atol=TOL), "non-periodic axis moved"
    # half-cell along periodic axes
    frac = out @ hinv
    assert np.all(np.abs(frac[:, ppp == 1]) <= 0.5 + TOL), "outside the half cell"
    # non-periodic fractional components untouched
    assert np.allclose(frac[:, ppp == 0], (vectors2d @ hinv)[:, ppp == 0], atol=TOL)


def main():
    rng = np.random.default_rng(20240917)
    ncases = 0
    for kind, hmatrix in make_cells(rng):
        ndim = hmatrix.shape[0]
        for mask in itertools.product((0, 1), repeat=ndim):
            span = 3.5 * np.abs(hmatrix).sum(axis=0)
            inputs = {
                "many": rng.uniform(-1.0, 1.0, size=(40, ndim)) * span,
                "single_row": rng.uniform(-1.0, 1.0, size=(1, ndim)) * span,
                "one_vector": rng.uniform(-1.0, 1.0, size=ndim) * span,
                "empty": np.zeros((0, ndim)),
            }
            for name, vectors in inputs.items():
                expected = reference_remove_pbc(vectors, hmatrix, mask) if len(vectors) else np.zeros((0, ndim))
                for ppp in (list(mask), tuple(mask), np.array(mask)):
                    out = remove_pbc(vectors, hmatrix, ppp)
                    assert isinstance(out, np.ndarray)
                    # the library returns (1, d) for a single (d,) vector
                    assert out.shape == np.atleast_2d(vectors).shape, (name, out.shape)
                    assert np.allclose(out, expected, rtol=0, atol=1e-8), (kind, mask, name)
                    ncases += 1
                if name == "empty":
                    continue
                out = remove_pbc(vectors, hmatrix, np.array(mask))
                check_contract(vectors, out, hmatrix, mask)
                # idempotence
                again = remove_pbc(out, hmatrix, np.array(mask))
                assert np.allclose(again, out, rtol=0, atol=1e-8), "not idempotent"
                # invariance under lattice shifts along periodic axes
                nrows = np.atleast_2d(vectors).shape[0]
                ints = rng.integers(-4, 5, size=(nrows, ndim)) * np.array(mask)
                shifted = np.atleast_2d(vectors) + ints @ hmatrix
                out_shifted = remove_pbc(shifted, hmatrix, np.array(mask))
                assert np.allclose(out_shifted, out, rtol=0, atol=1e-7), "lattice shift changed the result"
                # shortest image for orthogonal cells
                if kind == "orthogonal":
                    offsets = np.array(list(itertools.product((-1, 0, 1), repeat=ndim))) * np.array(mask)
                    images = out[:, None, :] + (offsets @ hmatrix)[None, :, :]
                    shortest = np.linalg.norm(images, axis=2).min(axis=1)
                    assert np.all(np.linalg.norm(out, axis=1) <= shortest + TOL), "not the shortest image"

        # default periodicity mask (3D only), list inputs, integer displacements
        if ndim == 3:
            vectors = rng.uniform(-30, 30, size=(10, 3))
            assert np.array_equal(remove_pbc(vectors, hmatrix), remove_pbc(vectors, hmatrix, np.array([1, 1, 1])))
            assert np.array_equal(remove_pbc(vectors, hmatrix=hmatrix, ppp=[1, 1, 1]), remove_pbc(vectors, hmatrix))
        ivec = rng.integers(-40, 40, size=(12, ndim))
        mask = [1] * ndim
        mask[-1] = 0
        expected = reference_remove_pbc(ivec, hmatrix, mask)
        assert np.allclose(remove_pbc(ivec, hmatrix, mask), expected, rtol=0, atol=1e-8)
        assert np.allclose(remove_pbc(ivec.tolist(), hmatrix.tolist(), mask), expected, rtol=0, atol=1e-8)
        # arguments are left untouched
        keep_v, keep_h, keep_p = ivec.copy(), hmatrix.copy(), np.array(mask)
        ppp_arr = np.array(mask)
        remove_pbc(ivec, hmatrix, ppp_arr)
        assert np.array_equal(ivec, keep_v) and np.array_equal(hmatrix, keep_h) and np.array_equal(ppp_arr, keep_p)
        assert ppp_arr.shape == (ndim,)

    # hand-computed values, orthogonal 2D box 10 x 4
    box = np.array([[10.0, 0.0], [0.0, 4.0]])
    got = remove_pbc(np.array([[6.0, 3.0], [-6.0, -3.0], [4.0, 1.0]]), box, [1, 1])
    assert np.allclose(got, [[-4.0, -1.0], [4.0, 1.0], [4.0, 1.0]], atol=1e-12)
    got = remove_pbc(np.array([[6.0, 3.0], [-6.0, -3.0]]), box, [0, 1])
    assert np.allclose(got, [[6.0, -1.0], [-6.0, 1.0]], atol=1e-12)
    # hand-computed, tilted 2D box: a=(10,0), b=(-3,4)
    tilted = np.array([[10.0, 0.0], [-3.0, 4.0]])
    got = remove_pbc(np.array([2.0, 3.0]), tilted, [1, 1])  # minus b -> (5,-1); s_x = 0.425 stays
    assert got.shape == (1, 2) and np.allclose(got, [[5.0, -1.0]], atol=1e-12)

    print(f"remove_pbc demo: {ncases} comparisons OK")
    return 0


if __name__ == "__main__":
    sys.exit(main())
