"""Demo for splitting sq.quinary into four private helpers called in sequence
(_quinary_density_modes, _quinary_accumulate, _quinary_normalise,
_quinary_average).

Synthetic five-species 2D / 3D trajectories in orthogonal boxes with unequal
edges (random compositions, several frames, default wave-vector set with
and without onlypositive, explicit integer wave-vector list, csv output); every
one of the 17 columns of sq(...).getresults() is compared with a vectorised
reference implementation of the density-mode definition written here, and the
sum rule N S = sum_a N_a S_aa + 2 sum_{a<b} sqrt(N_a N_b) S_ab is checked.
"""
import os
import shutil
import sys
import tempfile
from math import sqrt

import numpy as np
import pandas as pd

from PyMatterSim.reader.reader_utils import SingleSnapshot, Snapshots
from PyMatterSim.static.sq import sq

TOL = 2.0e-6  # per-vector values are rounded to 1e-6 by the library


def make_snapshots(rng, ndim, types, nframes, box):
    types = np.asarray(types)
    box = np.asarray(box, dtype=float)
    frames = []
    for step in range(nframes):
        frames.append(SingleSnapshot(
            timestep=step,
            nparticle=len(types),
            particle_type=types,
            positions=rng.random((len(types), ndim)) * box,
            boxlength=box,
            boxbounds=np.column_stack((np.zeros(ndim), box)),
            realbounds=None,
            hmatrix=np.diag(box),
        ))
    return Snapshots(nsnapshots=nframes, snapshots=frames)


def reference_qvectors(ndim, box, qrange, onlypositive):
    """all non-zero integer vectors in [-nhalf, nhalf) with integer norm"""
    numofq = int(qrange * 2.0 / (2 * np.pi / np.asarray(box)).min())
    nhalf = int(numofq / 2)
    grids = np.meshgrid(*([np.arange(-nhalf, nhalf)] * ndim), indexing="ij")
    vecs = np.stack([g.ravel() for g in grids], axis=1)
    n2 = (vecs ** 2).sum(axis=1)
    root = np.rint(np.sqrt(n2)).astype(int)
    keep = (root * root == n2) & (n2 > 0)
    if onlypositive:
        keep &= (vecs >= 0).all(axis=1)
    return vecs[keep]


def reference_sq(snapshots, nvec, nspecies):
    """frame average of Re[rho_a rho_b*]/sqrt(Na Nb), grouped by rounded |q|.

    Species routing mirrors the documented convention: species a < k are the
    particles of type id a, the last species k collects all remaining ones;
    N_a is the a-th entry of the sorted per-type counts (equal to the number
    of a-particles whenever the type ids are exactly 1..k).
    nspecies == 1 gives the total only.
    """
    first = snapshots.snapshots[0]
    q = 2 * np.pi * nvec / first.boxlength[None, :]
    ptype = first.particle_type
    masks = []
    if nspecies > 1:
        rest = np.ones(len(ptype), dtype=bool)
        for a in range(1, nspecies):
            masks.append(ptype == a)
            rest &= ptype != a
        masks.append(rest)
    counts = np.unique(ptype, return_counts=True)[1]
    cols = {"Sq": np.zeros(len(q))}
    for a in range(nspecies if nspecies > 1 else 0):
        cols[f"Sq{a + 1}{a + 1}"] = np.zeros(len(q))
    for a in range(nspecies if nspecies > 1 else 0):
        for b in range(a + 1, nspecies):
            cols[f"Sq{a + 1}{b + 1}"] = np.zeros(len(q))
    for snap in snapshots.snapshots:
        phase = np.exp(-1j * snap.positions @ q.T)  # (N, nq)
        rho_all = phase.sum(axis=0)
        cols["Sq"] += (rho_all * rho_all.conj()).real
        rho = [phase[m].sum(axis=0) for m in masks]
        for a in range(len(masks)):
            cols[f"Sq{a + 1}{a + 1}"] += (rho[a] * rho[a].conj()).real
            for b in range(a + 1, len(masks)):
                cols[f"Sq{a + 1}{b + 1}"] += (rho[a] * rho[b].conj()).real
    nframes = snapshots.nsnapshots
    cols["Sq"] /= nframes * len(ptype)
    for a in range(len(masks)):
        cols[f"Sq{a + 1}{a + 1}"] /= nframes * counts[a]
        for b in range(a + 1, len(masks)):
            cols[f"Sq{a + 1}{b + 1}"] /= nframes * sqrt(counts[a] * counts[b])
    frame = pd.DataFrame({"q": np.linalg.norm(q, axis=1), **cols}).round(6)
    return frame.groupby(frame["q"]).mean().reset_index()


def check(label, got, ref):
    assert list(got.columns) == list(ref.columns), (label, list(got.columns), list(ref.columns))
    assert got.shape == ref.shape, (label, got.shape, ref.shape)
    diff = np.abs(got.to_numpy(dtype=float) - ref.to_numpy(dtype=float)).max()
    assert diff < TOL, (label, diff)
    for col in got.columns:
        if len(col) == 4 and col[2] == col[3]:
            assert (got[col] >= 0).all(), (label, col)
    print(f"ok   {label:55s} max|diff| = {diff:.2e}")


def main():
    rng = np.random.default_rng(20240404)
    tmpdir = tempfile.mkdtemp()
    try:
        cases = [
            # (ndim, type ids, expected number of resolved species)
            (2, [1, 2, 3, 4, 5], 5),
            (3, [1, 2, 3, 4, 5], 5),
            (3, [5, 3, 1, 4, 2], 5),
            (2, [2, 3, 4, 5, 9], 5),      # species '1' empty, id 9 collected by the 'else' arm
            (3, [4, 5, 6, 7, 8], 5),      # species '1'..'3' empty (scalar 0 accumulators)
        ]
        for ndim, ids, nspecies in cases:
            box = [6.3, 8.1, 7.2][:ndim]
            natom = 19
            types = rng.choice(ids, size=natom)
            types[:len(ids)] = ids
            rng.shuffle(types)
            snaps = make_snapshots(rng, ndim, types, 3, box)
            for onlypositive in (False, True):
                qrange = 4.0
                got = sq(snaps, qrange=qrange, onlypositive=onlypositive).getresults()
                nvec = reference_qvectors(ndim, box, qrange, onlypositive)
                ref = reference_sq(snaps, nvec, nspecies)
                check(f"{ndim}D ids={ids} onlypositive={onlypositive}", got, ref)
            # explicit integer wave-vector list, also written to csv
            nvec = np.array([[1, 0, 0], [0, 1, 0], [0, 0, 1], [-1, 2, 2],
                             [2, -1, 2], [3, 0, 0], [0, -3, 0]])[:, :ndim]
            outfile = os.path.join(tmpdir, "sq.csv")
            got = sq(snaps, qvector=nvec, saveqvectors=True, outputfile=outfile).getresults()
            ref = reference_sq(snaps, nvec, nspecies)
            check(f"{ndim}D ids={ids} explicit q list", got, ref)
            disk = pd.read_csv(outfile)
            assert list(disk.columns) == list(got.columns)
            assert np.abs(disk.to_numpy() - got.to_numpy()).max() < 1e-6
            assert os.path.exists(outfile[:-4] + "_qvectors.csv")
            # sum rule N S = sum_a N_a S_aa + 2 sum_{a<b} sqrt(N_a N_b) S_ab
            if nspecies > 1 and sorted(ids) == list(range(1, nspecies + 1)):
                counts = np.unique(types, return_counts=True)[1]
                total = np.zeros(len(got))
                for a in range(nspecies):
                    total += counts[a] * got[f"Sq{a + 1}{a + 1}"]
                    for b in range(a + 1, nspecies):
                        total += 2 * sqrt(counts[a] * counts[b]) * got[f"Sq{a + 1}{b + 1}"]
                assert np.abs(total - natom * got["Sq"]).max() < 1e-3, "sum rule"
    finally:
        shutil.rmtree(tmpdir)
    print("ALL OK")
    return 0


if __name__ == "__main__":
    sys.exit(main())
