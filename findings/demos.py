#!/venv/bin/python
"""Failing inputs for the genuine defects found by the static checks (run against any checkout:
   PYTHONPATH=<repo> /venv/bin/python findings/demos.py [Gn ...]).  Each prints PASS (behaviour
   correct) or FAIL (defect present).  Used to confirm each defect against the real code before
   its `fix:` commit and to confirm the repair afterwards; not part of any registered check."""
import io, os, sys, tempfile, types
import numpy as np


def dump(bounds_lines, header_atoms, atoms, tri=""):
    s = "ITEM: TIMESTEP\n7\nITEM: NUMBER OF ATOMS\n%d\nITEM: BOX BOUNDS %spp pp pp\n" % (len(atoms), tri)
    s += "".join(l + "\n" for l in bounds_lines)
    s += "ITEM: ATOMS id type " + header_atoms + "\n" + "".join(a + "\n" for a in atoms)
    return s


def G1():
    from PyMatterSim.reader.lammps_reader_helper import read_lammps
    f = io.StringIO(dump(["1 3", "2 6", "-1 1"], "xs ys zs", ["1 1 0.5 0.5 0.5"]))
    p = read_lammps(f, 3).positions[0]
    return np.allclose(p, [2, 4, 0]), f"xs=(.5,.5,.5) in box (1,3)x(2,6)x(-1,1) -> {p}, expected [2,4,0]"


def G2():
    from PyMatterSim.reader.lammps_reader_helper import read_lammps
    # xy = -1: xlo_bound = xlo + min(0,xy) = -1 for xlo = 0
    f = io.StringIO(dump(["-1 4 -1", "0 3 0", "0 2 0"], "xs ys zs", ["1 1 0 0 0"], tri="xy xz yz "))
    p = read_lammps(f, 3).positions[0]
    return np.allclose(p, [0, 0, 0]), f"triclinic xy=-1, xs=0 -> {p}, expected real corner [0,0,0]"


def G3():
    from PyMatterSim.reader.lammps_reader_helper import read_lammps
    txt = dump(["0 4 1", "0 3 0", "0 2 0"], "xu yu zu", ["1 1 0.5 0.25 0.125"], tri="xy xz yz ")
    f = io.StringIO(txt + txt)
    s1 = read_lammps(f, 3)
    try:
        s2 = read_lammps(f, 3)
        ok2 = s2 is not None and s2.timestep == 7
    except Exception as e:
        ok2 = False
    return np.allclose(s1.positions[0], [0.5, 0.25, 0.125]) and ok2, f"triclinic xu dump -> {s1.positions[0]}, second frame ok={ok2}"


def G4():
    from PyMatterSim.static.hessians import HessianMatrix, InteractionParams, ModelName
    from PyMatterSim.reader.reader_utils import SingleSnapshot
    rng = np.random.default_rng(1)
    pos = np.array([[i, j] for i in range(3) for j in range(2)], dtype=float) * np.array([1.0, 1.5]) + rng.random((6, 2)) * 0.1
    pos = np.array([[i, j] for i in range(3) for j in range(2)], dtype=float) + rng.random((6, 2)) * 0.1
    snap = SingleSnapshot(0, 6, np.array([1, 2, 2, 1, 1, 2]), pos, np.array([3., 3.]), np.array([[0, 3.], [0, 3.]]), None, np.diag([3., 3.]))
    d = tempfile.mkdtemp()
    out = os.path.join(d, "h")
    h = HessianMatrix(snap, {1: 1.0, 2: 3.0}, np.ones((2, 2)), np.ones((2, 2)), np.full((2, 2), 1.4), np.array([1, 1]))
    h.diagonalize_hessian(InteractionParams(ModelName.lennard_jones), saveevecs=False, savehessian=True, outputfile=out)
    H = np.load(out + ".hessianmatrix.npy")
    m = np.repeat(np.array([1., 3., 3., 1., 1., 3.]), 2)
    t = np.sqrt(m) * np.tile([1., 0.], 6)
    return np.abs(H @ t).max() < 1e-8 * max(1, np.abs(H).max()), f"|H . mass-weighted translation| = {np.abs(H @ t).max():.3g} (|H|max {np.abs(H).max():.3g})"


def _snaps(n=3, N=4, ndim=2, L=4.0):
    from PyMatterSim.reader.reader_utils import SingleSnapshot, Snapshots
    rng = np.random.default_rng(0)
    ss = [SingleSnapshot(10 * k, N, np.ones(N, dtype=int), rng.random((N, ndim)) * L, np.full(ndim, L),
                         np.array([[0, L]] * ndim), None, np.diag([L] * ndim)) for k in range(n)]
    return Snapshots(n, ss)


def G5():
    from PyMatterSim.utils.coarse_graining import gaussian_blurring
    sn = _snaps(1, 4, 2)
    try:
        gp, _ = gaussian_blurring(sn, np.ones((1, 4)), np.array([2, 5]), ppp=np.array([1, 1]))
    except Exception as e:
        return False, f"ngrids (2,5): {type(e).__name__}: {e}"
    distinct = len({tuple(r) for r in gp[0].round(9)})
    return distinct == 10, f"ngrids (2,5): {distinct} distinct grid points of 10"


def G6():
    from PyMatterSim.utils.coarse_graining import time_average
    sn = _snaps(8, 2, 2)
    # interval 10*0.1 = 1.0 ; period 3.0 -> window 3 -> middle n+1
    _, mid = time_average(sn, np.zeros((8, 2)), time_period=3.0, dt=0.1)
    want = [n + 1 for n in range(len(mid))]
    return list(mid) == want, f"window 3: middle ids {list(mid)}, expected {want}"


def G7():
    from PyMatterSim.static.shape import gyration_tensor
    p = np.random.default_rng(2).random((5, 3)) + 4
    q = p.copy()
    gyration_tensor(p)
    return np.array_equal(p, q), "argument array " + ("unchanged" if np.array_equal(p, q) else "was recentred in place")


def G8():
    from PyMatterSim.neighbors.freud_neighbors import VolumeMatrix
    from PyMatterSim.reader.reader_utils import SingleSnapshot, Snapshots
    rng = np.random.default_rng(3)
    pos = rng.random((8, 3)) * 4 - 2
    q = pos.copy()
    sn = Snapshots(1, [SingleSnapshot(0, 8, np.ones(8, dtype=int), pos, np.full(3, 4.), np.array([[-2, 2.]] * 3), None, np.diag([4.] * 3))])
    VolumeMatrix(sn, ndim=3, nconfig=0, transform_matrix=False)
    return np.array_equal(pos, q), f"snapshot.positions max change {np.abs(pos - q).max():.3g}"


def G9():
    from PyMatterSim.neighbors.freud_neighbors import VolumeMatrix
    from PyMatterSim.reader.reader_utils import SingleSnapshot, Snapshots
    rng = np.random.default_rng(4)
    ss = [SingleSnapshot(k, 8, np.ones(8, dtype=int), rng.random((8, 3)) * 4, np.full(3, 4.), np.array([[0, 4.]] * 3), None, np.diag([4.] * 3)) for k in range(2)]
    try:
        A = VolumeMatrix(Snapshots(2, ss), ndim=3, nconfig=1, transform_matrix=False)
    except Exception as e:
        return False, f"nconfig=1: {type(e).__name__}: {e}"
    return A.shape == (8, 24), f"nconfig=1: matrix shape {A.shape}, expected (8, 24)"


def G10():
    from PyMatterSim.neighbors.freud_neighbors import VolumeMatrix
    from PyMatterSim.reader.reader_utils import SingleSnapshot, Snapshots
    rng = np.random.default_rng(5)
    sn = Snapshots(1, [SingleSnapshot(0, 8, np.ones(8, dtype=int), rng.random((8, 3)) * 4, np.full(3, 4.), np.array([[0, 4.]] * 3), None, np.diag([4.] * 3))])
    d = tempfile.mkdtemp()
    out = os.path.join(d, "vm.npy")
    try:
        A = VolumeMatrix(sn, ndim=3, transform_matrix=False, outputfile=out)
    except Exception as e:
        return False, f"outputfile: {type(e).__name__}: {str(e)[:80]}"
    return os.path.exists(out) and np.allclose(np.load(out), A), "saved file " + ("matches" if os.path.exists(out) else "missing")


def G11():
    from PyMatterSim.reader.gsd_reader_helper import read_gsd_dcd
    fr = lambda k: types.SimpleNamespace(configuration=types.SimpleNamespace(dimensions=2, box=np.array([4., 4, 0, 0, 0, 0]), step=k),
                                         particles=types.SimpleNamespace(N=3, typeid=np.zeros(3, dtype=int), position=np.zeros((3, 3))))
    class G(list):
        pass
    g = G([fr(0), fr(1)])
    dcd = types.SimpleNamespace(read=lambda: (np.arange(18.).reshape(2, 3, 3), None, None))
    try:
        s = read_gsd_dcd(g, dcd, 2)
    except Exception as e:
        return False, f"{type(e).__name__}: {e}"
    return np.array_equal(s.snapshots[1].positions, np.arange(18.).reshape(2, 3, 3)[1][:, :2]), "dcd positions attached"


def G12():
    from PyMatterSim.static.vector import vector_decomposition_sq
    sn = _snaps(1, 5, 2)
    try:
        vector_decomposition_sq(sn.snapshots[0], np.array([[1, 0], [0, 1], [1, 1]]), np.random.default_rng(6).random((5, 2)))
    except Exception as e:
        return False, f"{type(e).__name__}: {e}"
    return True, "ran"


def G13():
    from PyMatterSim.static.pairentropy import s2_integral
    try:
        v = s2_integral(np.array([1.0, 2.0, 1.5]), np.array([0.1, 0.2, 0.3]), 3)
    except Exception as e:
        return False, f"{type(e).__name__}: {e}"
    return True, f"value {v:.4g}"


def G16():
    from PyMatterSim.utils.coarse_graining import time_average
    sn = _snaps(8, 2, 2)     # timesteps 0,10,.. ; dt 0.01 -> interval 0.1
    r, mid = time_average(sn, np.zeros((8, 2)), time_period=0.3, dt=0.01)
    return r.shape[0] == 8 - 3, f"period 0.3 / interval 0.1: {8 - r.shape[0]} frames per window, expected 3"


def _cube(N):
    from PyMatterSim.reader.reader_utils import SingleSnapshot, Snapshots
    pos = np.random.default_rng(1).uniform(0, 5, (N, 3))
    s = SingleSnapshot(timestep=0, nparticle=N, particle_type=np.ones(N, dtype=int), positions=pos, boxlength=np.array([5.0, 5, 5]),
                       boxbounds=np.array([[0, 5.0], [0, 5], [0, 5]]), realbounds=None, hmatrix=np.diag([5.0, 5, 5]))
    return Snapshots(nsnapshots=1, snapshots=[s])


def G17():
    from PyMatterSim.static.geometric import q8_tetrahedral
    try:
        r = q8_tetrahedral(_cube(5))
    except Exception as e:
        return False, f"five particles (N >= 5 is in scope): {type(e).__name__}: {e}"
    return r.shape == (1, 5), f"five particles: result shape {r.shape}"


def G18():
    from PyMatterSim.neighbors.calculate_neighbors import Nnearests
    d = tempfile.mkdtemp()
    try:
        Nnearests(_cube(13), N=12, ppp=np.array([1, 1, 1]), fnfile=os.path.join(d, "n.dat"))
    except Exception as e:
        return False, f"13 particles, N = 12 (each particle has exactly 12 others): {type(e).__name__}: {e}"
    finally:
        import shutil
        shutil.rmtree(d, ignore_errors=True)
    return True, "13 particles, N = 12: list written"


def G19():
    """uint32 type ids (what HOOMD/GSD frames carry): the cross partials of a ternary g(r) must not depend on the integer kind"""
    from PyMatterSim.reader.reader_utils import SingleSnapshot, Snapshots
    from PyMatterSim.static.gr import gr
    rng = np.random.default_rng(1)
    N, L = 90, 6.0
    pos = rng.random((N, 3)) * L
    types = rng.permutation(np.repeat([1, 2, 3], 30))

    def mk(t):
        s = SingleSnapshot(timestep=0, nparticle=N, particle_type=t, positions=pos, boxlength=np.array([L] * 3), boxbounds=np.array([[0, L]] * 3),
                           realbounds=None, hmatrix=np.diag([L] * 3))
        return Snapshots(nsnapshots=1, snapshots=[s])
    a = gr(mk(types.astype(np.int64)), ppp=np.array([1, 1, 1]), rdelta=0.5).getresults()
    b = gr(mk(types.astype(np.uint32)), ppp=np.array([1, 1, 1]), rdelta=0.5).getresults()
    dev = {c: float(np.abs(a[c] - b[c]).max()) for c in a.columns}
    bad = {c: round(v, 4) for c, v in dev.items() if v > 1e-12}
    return not bad, f"ternary g(r), uint32 vs int64 type ids: columns that differ {bad or 'none'}"


if __name__ == "__main__":
    import logging
    logging.disable(logging.CRITICAL)
    names = sys.argv[1:] or [n for n in sorted(globals(), key=lambda s: int(s[1:]) if s[1:].isdigit() else 0) if n[0] == "G" and n[1:].isdigit()]
    for n in names:
        try:
            ok, msg = globals()[n]()
        except Exception as e:
            ok, msg = False, f"crashed: {type(e).__name__}: {e}"
        print(f"{n}: {'PASS' if ok else 'FAIL'}  {msg}")
